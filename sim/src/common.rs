//! Shared plumbing: guarded library calls (panic and tick budget become outcomes), violation
//! records, run results.

use serde::{Deserialize, Serialize};
use std::collections::{BTreeMap, BTreeSet};
use std::panic::{catch_unwind, AssertUnwindSafe};

pub const DEFAULT_BUDGET: u64 = 4096;

#[derive(Clone, Debug, Serialize, Deserialize)]
pub struct Violation {
    pub property: String,
    pub invariant: String,
    pub step: usize,
    /// stable identity of the failure class (known-findings key, minimisation target)
    pub signature: String,
    pub detail: String,
}

#[derive(Clone, Debug, Default)]
pub struct RunResult {
    pub steps: u64,
    pub fingerprint: u64,
    pub step_digests: Vec<u64>,
    pub violation: Option<Violation>,
    /// reach tuples (distinct set) and event counters (how often something fired)
    pub reach: BTreeSet<String>,
    pub counters: BTreeMap<String, u64>,
    /// panic messages seen as outcomes (step, message) - used by C18's I18.2
    pub panics: Vec<(usize, String)>,
    /// when the failing step came out of a macro operation: the concrete single operation
    pub concrete_op: Option<serde_json::Value>,
}

impl RunResult {
    pub fn count(&mut self, key: &str) {
        *self.counters.entry(key.to_string()).or_insert(0) += 1;
    }
    pub fn count_n(&mut self, key: &str, n: u64) {
        *self.counters.entry(key.to_string()).or_insert(0) += n;
    }
    pub fn reach(&mut self, key: String) {
        self.reach.insert(key);
    }
}

pub fn install_quiet_panic_hook() {
    std::panic::set_hook(Box::new(|_| {}));
}

pub const HANG: &str = "HANG(tick budget exceeded)";

/// Run a piece of library code with the tick budget armed. A panic becomes `Err(message)`;
/// exceeding the budget becomes `Err(HANG)`.
pub fn guarded<T>(budget: u64, f: impl FnOnce() -> T) -> Result<T, String> {
    sm9_core::verif::set_budget(budget);
    let r = catch_unwind(AssertUnwindSafe(f));
    sm9_core::verif::set_budget(u64::MAX);
    match r {
        Ok(v) => Ok(v),
        Err(p) => {
            let msg = if let Some(s) = p.downcast_ref::<&str>() {
                s.to_string()
            } else if let Some(s) = p.downcast_ref::<String>() {
                s.clone()
            } else {
                "<non-string panic>".to_string()
            };
            if msg.contains(sm9_core::verif::TICK_PANIC) {
                Err(HANG.to_string())
            } else {
                Err(format!("PANIC:{}", msg))
            }
        }
    }
}

/// Is this panic message one produced by a debug assertion or an overflow check?
pub fn is_debug_only_panic(msg: &str) -> bool {
    let m = msg;
    m.contains("assertion") || m.contains("attempt to") || m.contains("overflow")
}

pub fn short(s: &str) -> String {
    if s.len() > 160 {
        format!("{}...", &s[..160])
    } else {
        s.to_string()
    }
}
