//! W-grp: group / pairing register machine (properties C16 and C03).
//!
//! Registers hold G1, G2, Fr values and prepared G2 tables. The model tracks only the
//! discrete logarithm of every group value (an integer mod r). After every step the
//! monitors compare the library value with a freshly computed value of the same group
//! element; pairing observations compare all three entry points.

use crate::common::*;
use crate::model::{self, be32, from_be, hex, unhex, Fmt, FMTS};
use crate::rng::{Digest, Prng};
use crate::world_fld::{RngMode, SimRng};
use num_bigint::BigUint;
use num_traits::{One, Zero};
use serde::{Deserialize, Serialize};
use sm9_core::{fast_pairing, pairing, AffineG1, AffineG2, Fq, Fq2, Fr, G2Prepared, Group, Gt, G1, G2};
use std::collections::BTreeMap;

#[derive(Clone, Copy, Debug, PartialEq, Eq, Serialize, Deserialize, PartialOrd, Ord)]
pub enum Grp {
    G1,
    G2,
}

#[derive(Clone, Debug, PartialEq, Eq, Serialize, Deserialize)]
#[serde(tag = "op")]
pub enum GOp {
    Add { g: Grp, dst: usize, a: usize, b: usize },
    Sub { g: Grp, dst: usize, a: usize, b: usize },
    Neg { g: Grp, dst: usize, a: usize },
    Dbl { g: Grp, dst: usize, a: usize },
    MulReg { g: Grp, dst: usize, a: usize, s: usize, left: bool },
    MulK { g: Grp, dst: usize, a: usize, k: String, left: bool },
    Normalize { g: Grp, dst: usize },
    AffineRt { g: Grp, dst: usize, a: usize },
    Codec { g: Grp, dst: usize, a: usize, fmt: Fmt },
    Copy { g: Grp, dst: usize, a: usize },
    SetGen { g: Grp, dst: usize },
    SetZero { g: Grp, dst: usize },
    /// representation perturbation through the public constructor (C03 runs only):
    /// (x, y, z) -> (lam^2 x, lam^3 y, lam z); the denoted group element is unchanged
    Rescale { g: Grp, dst: usize, lam: String },
    /// rescale so that the Jacobian X (which = 0) or Y (which = 1, G1 only) coordinate becomes
    /// the given base-field constant (1, -1, 2, R^-1, ...): a representative with a special
    /// coordinate other than z
    RescaleTo { g: Grp, dst: usize, which: u8, target: String },
    FrAdd { dst: usize, a: usize, b: usize },
    FrSub { dst: usize, a: usize, b: usize },
    FrMul { dst: usize, a: usize, b: usize },
    FrNeg { dst: usize, a: usize },
    FrInv { dst: usize, a: usize },
    FrConst { dst: usize, k: String },
    FrRandom { dst: usize, mode: RngMode, sub: u64 },
    Prep { slot: usize, g2: usize },
    PrepClone {
        slot: usize,
        from: usize,
        /// use Clone::clone_from into the existing slot instead of clone() + assignment
        #[serde(default)]
        via_from: bool,
    },
    PrepPair { slot: usize, g1: usize },
    Pair { g1: usize, g2: usize },
}

impl GOp {
    pub fn name(&self) -> String {
        match self {
            GOp::Add { g, .. } => format!("{:?}.add", g),
            GOp::Sub { g, .. } => format!("{:?}.sub", g),
            GOp::Neg { g, .. } => format!("{:?}.neg", g),
            GOp::Dbl { g, .. } => format!("{:?}.dbl", g),
            GOp::MulReg { g, left, .. } | GOp::MulK { g, left, .. } => {
                format!("{:?}.{}", g, if *left { "k*P" } else { "P*k" })
            }
            GOp::Normalize { g, .. } => format!("{:?}.normalize", g),
            GOp::AffineRt { g, .. } => format!("{:?}.affine_rt", g),
            GOp::Codec { g, fmt, .. } => format!("{:?}.codec_{}", g, fmt.name()),
            GOp::Copy { g, .. } => format!("{:?}.copy", g),
            GOp::SetGen { g, .. } => format!("{:?}.one", g),
            GOp::SetZero { g, .. } => format!("{:?}.zero", g),
            GOp::Rescale { g, .. } => format!("{:?}.rescale", g),
            GOp::RescaleTo { g, which, .. } => format!("{:?}.rescale_to_{}", g, if which % 2 == 0 { "x" } else { "y" }),
            GOp::FrAdd { .. } => "Fr.add".into(),
            GOp::FrSub { .. } => "Fr.sub".into(),
            GOp::FrMul { .. } => "Fr.mul".into(),
            GOp::FrNeg { .. } => "Fr.neg".into(),
            GOp::FrInv { .. } => "Fr.inverse".into(),
            GOp::FrConst { .. } => "Fr.const".into(),
            GOp::FrRandom { .. } => "Fr.random".into(),
            GOp::Prep { .. } => "G2Prepared.from".into(),
            GOp::PrepClone { .. } => "G2Prepared.clone".into(),
            GOp::PrepPair { .. } => "G2Prepared.pairing".into(),
            GOp::Pair { .. } => "pair".into(),
        }
    }
}

#[derive(Clone, Debug, Serialize, Deserialize)]
pub struct GrpSpec {
    pub n: usize,
    pub m: usize,
    pub budget: u64,
    pub ops: Vec<GOp>,
}

// ---------------------------------------------------------------------------------------
// library adapters

pub trait LibG: Group + std::fmt::Debug {
    const NAME: &'static str;
    const GRP: Grp;
    fn enc(self, fmt: Fmt) -> Vec<u8>;
    fn dec(b: &[u8], fmt: Fmt) -> Result<Self, String>;
    /// AffineG::from_jacobian then From<AffineG>
    fn affine_rt(self) -> Option<Self>;
    /// representation class read off the public accessors
    fn repr_class(&self) -> &'static str;
    fn rescale(self, lam: &[u8]) -> Option<Self>;
    fn mul_left(k: Fr, p: Self) -> Self;
    fn z_is_one(&self) -> bool;
    /// Jacobian coordinates as lists of canonical 32-byte field encodings, real part first
    /// for Fq2 (read through real()/imaginary(), not through the Fq2 byte layout)
    fn jac_coords(&self) -> (Vec<[u8; 32]>, Vec<[u8; 32]>, Vec<[u8; 32]>);
    /// (x, y, 1) through the public constructor, from canonical coordinate parts (real first)
    fn from_affine_parts(x: &[[u8; 32]], y: &[[u8; 32]]) -> Option<Self>;
    /// stored (Montgomery) limbs of the components of z, through the read-only hook
    fn z_limbs(&self) -> Vec<[u64; 4]>;
    /// see aim_lambda; target is a base-field (Fq) constant, embedded as (t, 0) for G2
    fn aim(&self, which: u8, target: &BigUint) -> Option<Vec<u8>>;
}

impl LibG for G1 {
    const NAME: &'static str = "G1";
    const GRP: Grp = Grp::G1;
    fn enc(self, fmt: Fmt) -> Vec<u8> {
        match fmt {
            Fmt::Raw => self.to_slice().to_vec(),
            Fmt::Unc => self.to_uncompressed().to_vec(),
            Fmt::Cmp => self.to_compressed().to_vec(),
        }
    }
    fn dec(b: &[u8], fmt: Fmt) -> Result<Self, String> {
        match fmt {
            Fmt::Raw => G1::from_slice(b),
            Fmt::Unc => G1::from_uncompressed(b),
            Fmt::Cmp => G1::from_compressed(b),
        }
        .map_err(|e| format!("{:?}", e))
    }
    fn affine_rt(self) -> Option<Self> {
        AffineG1::from_jacobian(self).map(G1::from)
    }
    fn repr_class(&self) -> &'static str {
        if self.z().is_zero() {
            if self.x().is_zero() && self.y() == Fq::one() {
                "O-canon"
            } else {
                "O-noncanon"
            }
        } else if self.z() == Fq::one() {
            "z=1"
        } else {
            "jac"
        }
    }
    fn rescale(self, lam: &[u8]) -> Option<Self> {
        let l = Fq::from_slice(lam)?;
        if l.is_zero() {
            return None;
        }
        let l2 = l * l;
        let l3 = l2 * l;
        Some(G1::new(self.x() * l2, self.y() * l3, self.z() * l))
    }
    fn mul_left(k: Fr, p: Self) -> Self {
        k * p
    }
    fn z_is_one(&self) -> bool {
        self.z() == Fq::one()
    }
    fn jac_coords(&self) -> (Vec<[u8; 32]>, Vec<[u8; 32]>, Vec<[u8; 32]>) {
        (vec![self.x().to_slice()], vec![self.y().to_slice()], vec![self.z().to_slice()])
    }
    fn from_affine_parts(x: &[[u8; 32]], y: &[[u8; 32]]) -> Option<Self> {
        if x.len() != 1 || y.len() != 1 {
            return None;
        }
        Some(G1::new(Fq::from_slice(&x[0])?, Fq::from_slice(&y[0])?, Fq::one()))
    }
    fn z_limbs(&self) -> Vec<[u64; 4]> {
        vec![sm9_core::verif::raw_fq(&self.z())]
    }
    fn aim(&self, which: u8, target: &BigUint) -> Option<Vec<u8>> {
        aim_lambda::<G1, model::Q>(self, which, &model::Q::new(target.clone()))
    }
}

impl LibG for G2 {
    const NAME: &'static str = "G2";
    const GRP: Grp = Grp::G2;
    fn enc(self, fmt: Fmt) -> Vec<u8> {
        match fmt {
            Fmt::Raw => self.to_slice().to_vec(),
            Fmt::Unc => self.to_uncompressed().to_vec(),
            Fmt::Cmp => self.to_compressed().to_vec(),
        }
    }
    fn dec(b: &[u8], fmt: Fmt) -> Result<Self, String> {
        match fmt {
            Fmt::Raw => G2::from_slice(b),
            Fmt::Unc => G2::from_uncompressed(b),
            Fmt::Cmp => G2::from_compressed(b),
        }
        .map_err(|e| format!("{:?}", e))
    }
    fn affine_rt(self) -> Option<Self> {
        AffineG2::from_jacobian(self).map(G2::from)
    }
    fn repr_class(&self) -> &'static str {
        if self.z().is_zero() {
            if self.x().is_zero() && self.y() == Fq2::one() {
                "O-canon"
            } else {
                "O-noncanon"
            }
        } else if self.z() == Fq2::one() {
            "z=1"
        } else {
            "jac"
        }
    }
    fn rescale(self, lam: &[u8]) -> Option<Self> {
        // lam: 64 bytes, imaginary part first (the library's own Fq2 byte layout); built
        // from two Fq values so that no decoder under test is involved
        if lam.len() != 64 {
            return None;
        }
        let im = Fq::from_slice(&lam[..32])?;
        let re = Fq::from_slice(&lam[32..])?;
        let l = Fq2::new(re, im);
        if l.is_zero() {
            return None;
        }
        let l2 = l * l;
        let l3 = l2 * l;
        Some(G2::new(self.x() * l2, self.y() * l3, self.z() * l))
    }
    fn mul_left(k: Fr, p: Self) -> Self {
        k * p
    }
    fn z_is_one(&self) -> bool {
        self.z() == Fq2::one()
    }
    fn jac_coords(&self) -> (Vec<[u8; 32]>, Vec<[u8; 32]>, Vec<[u8; 32]>) {
        let f = |v: Fq2| vec![v.real().to_slice(), v.imaginary().to_slice()];
        (f(self.x()), f(self.y()), f(self.z()))
    }
    fn from_affine_parts(x: &[[u8; 32]], y: &[[u8; 32]]) -> Option<Self> {
        if x.len() != 2 || y.len() != 2 {
            return None;
        }
        let fx = Fq2::new(Fq::from_slice(&x[0])?, Fq::from_slice(&x[1])?);
        let fy = Fq2::new(Fq::from_slice(&y[0])?, Fq::from_slice(&y[1])?);
        Some(G2::new(fx, fy, Fq2::one()))
    }
    fn z_limbs(&self) -> Vec<[u64; 4]> {
        let z = self.z();
        // components, and the norm z0^2 + 2 z1^2 that the Fq2 inversion actually inverts
        let n = z.real() * z.real() + (z.imaginary() * z.imaginary()) + (z.imaginary() * z.imaginary());
        vec![sm9_core::verif::raw_fq(&z.real()), sm9_core::verif::raw_fq(&z.imaginary()), sm9_core::verif::raw_fq(&n)]
    }
    fn aim(&self, which: u8, target: &BigUint) -> Option<Vec<u8>> {
        aim_lambda::<G2, model::Q2>(self, which, &model::Q2::new(target.clone(), BigUint::zero()))
    }
}

/// lambda such that rescaling by it makes the Jacobian X (which = 0) or Y (which = 1) coordinate
/// of `p` equal to `target`: lambda^2 = target/X resp. lambda^3 = target/Y, solved in the model
/// from the coordinates read through the public accessors. None if no such lambda exists.
pub fn aim_lambda<G: LibG, F: model::RF>(p: &G, which: u8, target: &F) -> Option<Vec<u8>> {
    let (x, y, _z) = p.jac_coords();
    let c = F::from_parts(if which % 2 == 0 { &x } else { &y })?;
    let ratio = target.mul(&c.inv()?);
    let lam = if which % 2 == 0 { ratio.sqrt()? } else { ratio.cbrt()? };
    if lam.is_zero() {
        return None;
    }
    Some(lam.to_bytes())
}

pub fn fr_of(k: &BigUint) -> Fr {
    Fr::from_slice(&be32(k)).expect("32-byte scalar")
}

struct Bank<G: LibG> {
    regs: Vec<(G, BigUint)>,
    fresh: BTreeMap<BigUint, G>,
}

impl<G: LibG> Bank<G> {
    fn new(n: usize) -> Self {
        let regs = (0..n)
            .map(|i| if i % 2 == 0 { (G::one(), BigUint::one()) } else { (G::zero(), BigUint::zero()) })
            .collect();
        Bank { regs, fresh: BTreeMap::new() }
    }
    /// "freshly computed value of the same group element": k * generator, from nothing else
    fn fresh(&mut self, k: &BigUint) -> G {
        if let Some(g) = self.fresh.get(k) {
            return *g;
        }
        let g = G::one() * fr_of(k);
        self.fresh.insert(k.clone(), g);
        g
    }
}

struct St {
    g1: Bank<G1>,
    g2: Bank<G2>,
    fr: Vec<(Fr, BigUint)>,
    prep: Vec<(G2Prepared, BigUint)>,
    /// first result seen for (k_slot, k_g1) through a prepared slot
    prep_seen: BTreeMap<(BigUint, BigUint), Vec<u8>>,
    /// per slot: the G1 dlogs it was called with since it was (re)prepared, in call order
    prep_calls: Vec<Vec<BigUint>>,
    /// pairing of fresh representatives, per (k1, k2)
    fresh_pair: BTreeMap<(BigUint, BigUint), Vec<u8>>,
    gt_base: Option<Gt>,
    reuse: Vec<u64>,
}

type Check = Result<(), (String, String)>;

fn inv(prop: &str, n: u32) -> String {
    // I16.n under C16, I03.n under C03
    format!("I{}.{}", &prop[1..], n)
}

/// monitors I16.1 - I16.4 for the register just written
fn check_group<G: LibG>(bank: &mut Bank<G>, idx: usize, prop: &str, full: bool) -> Check {
    let (v, k) = bank.regs[idx].clone();
    let kz = k.is_zero();
    if v.is_zero() != kz {
        return Err((
            inv(prop, 1),
            format!("{} reg{}: is_zero() = {} but the model value is {}*generator", G::NAME, idx, v.is_zero(), short_k(&k)),
        ));
    }
    let f = bank.fresh(&k);
    if !(v == f) || !(f == v) {
        return Err((
            inv(prop, 2),
            format!("{} reg{} (repr {}) != freshly computed {}*generator", G::NAME, idx, v.repr_class(), short_k(&k)),
        ));
    }
    // pairwise equality against the model
    for j in 0..bank.regs.len() {
        let (w, kj) = &bank.regs[j];
        let e = v == *w;
        let e2 = *w == v;
        let m = k == *kj;
        if e != m || e2 != m {
            return Err((
                inv(prop, 3),
                format!(
                    "{} reg{} == reg{} is {}/{} but the model says {} (k = {} vs {})",
                    G::NAME,
                    idx,
                    j,
                    e,
                    e2,
                    m,
                    short_k(&k),
                    short_k(kj)
                ),
            ));
        }
    }
    if !full {
        return Ok(());
    }
    if !kz {
        for fmt in FMTS {
            let a = v.enc(fmt);
            let b = f.enc(fmt);
            if a != b {
                return Err((
                    inv(prop, 4),
                    format!("{} reg{} (repr {}): {} encoding differs from that of the fresh value of {}*generator", G::NAME, idx, v.repr_class(), fmt.name(), short_k(&k)),
                ));
            }
        }
        match v.affine_rt() {
            None => {
                return Err((inv(prop, 4), format!("{} reg{}: affine conversion failed for a non-identity value", G::NAME, idx)));
            }
            Some(w) => {
                if !(w == v) || !(w == f) {
                    return Err((inv(prop, 4), format!("{} reg{}: affine round trip changed the value", G::NAME, idx)));
                }
            }
        }
        let mut nrm = v;
        nrm.normalize();
        if !nrm.z_is_one() || !(nrm == v) {
            return Err((inv(prop, 4), format!("{} reg{}: normalize() did not give z = 1 / changed the value", G::NAME, idx)));
        }
    } else {
        // identities: the formats are not defined for them, but whatever the encoders do
        // (panic, or return something) must be the same for every representation of the
        // identity as for the freshly computed one ("observationally identical")
        for fmt in FMTS {
            let a = std::panic::catch_unwind(std::panic::AssertUnwindSafe(|| v.enc(fmt))).map_err(|_| ());
            let b = std::panic::catch_unwind(std::panic::AssertUnwindSafe(|| f.enc(fmt))).map_err(|_| ());
            if a != b {
                return Err((
                    inv(prop, 4),
                    format!(
                        "{} reg{} (repr {}): the {} encoder behaves differently on this identity ({}) than on the freshly computed identity ({})",
                        G::NAME,
                        idx,
                        v.repr_class(),
                        fmt.name(),
                        match &a { Ok(x) => format!("returns {}", hex(x)), Err(_) => "panics".to_string() },
                        match &b { Ok(x) => format!("returns {}", hex(x)), Err(_) => "panics".to_string() }
                    ),
                ));
            }
        }
        if v.affine_rt().is_some() {
            return Err((inv(prop, 4), format!("{} reg{}: affine conversion of the identity returned Some", G::NAME, idx)));
        }
        let mut nrm = v;
        nrm.normalize();
        if !nrm.is_zero() {
            return Err((inv(prop, 4), format!("{} reg{}: normalize() of the identity is no longer the identity", G::NAME, idx)));
        }
    }
    Ok(())
}

fn short_k(k: &BigUint) -> String {
    let r = model::r();
    if k.bits() <= 16 {
        format!("{}", k)
    } else if (r - k).bits() <= 16 {
        format!("r-{}", r - k)
    } else {
        let h = hex(&be32(k));
        format!("0x{}..{}", &h[..8], &h[56..])
    }
}

fn relation(ka: &BigUint, kb: &BigUint) -> &'static str {
    let r = model::r();
    match (ka.is_zero(), kb.is_zero()) {
        (true, true) => "both-O",
        (true, false) => "left-O",
        (false, true) => "right-O",
        _ => {
            if ka == kb {
                "equal"
            } else if (ka + kb) % r == BigUint::zero() {
                "opposite"
            } else {
                "independent"
            }
        }
    }
}

enum Wrote {
    G1(usize),
    G2(usize),
    Fr(usize),
    Obs(Vec<u8>),
    Nothing(&'static str),
}

struct StepOut {
    wrote: Wrote,
    extra: Check,
}

fn ok(w: Wrote) -> StepOut {
    StepOut { wrote: w, extra: Ok(()) }
}

fn group_step<G: LibG>(bank: &mut Bank<G>, fr: &[(Fr, BigUint)], op: &GOp, n: usize, res: &mut RunResult) -> (Option<usize>, Check) {
    let r = model::r();
    let nm = op.name();
    match op {
        GOp::Add { dst, a, b, .. } | GOp::Sub { dst, a, b, .. } => {
            let (av, ak) = bank.regs[*a % n].clone();
            let (bv, bk) = bank.regs[*b % n].clone();
            let sub = matches!(op, GOp::Sub { .. });
            let eff_bk = if sub { model::mneg(&bk, r) } else { bk.clone() };
            res.reach(format!("{}|{}|{}|{}", nm, av.repr_class(), bv.repr_class(), relation(&ak, &eff_bk)));
            res.reach(format!("rel|{}|{}", G::NAME, relation(&ak, &eff_bk)));
            let v = if sub { av - bv } else { av + bv };
            let k = if sub { model::msub(&ak, &bk, r) } else { model::madd(&ak, &bk, r) };
            bank.regs[*dst % n] = (v, k);
            (Some(*dst % n), Ok(()))
        }
        GOp::Neg { dst, a, .. } => {
            let (av, ak) = bank.regs[*a % n].clone();
            res.reach(format!("{}|{}", nm, av.repr_class()));
            bank.regs[*dst % n] = (-av, model::mneg(&ak, r));
            (Some(*dst % n), Ok(()))
        }
        GOp::Dbl { dst, a, .. } => {
            let (av, ak) = bank.regs[*a % n].clone();
            res.reach(format!("{}|{}", nm, av.repr_class()));
            bank.regs[*dst % n] = (av + av, model::madd(&ak, &ak, r));
            (Some(*dst % n), Ok(()))
        }
        GOp::MulReg { dst, a, s, left, .. } => {
            let (av, ak) = bank.regs[*a % n].clone();
            let (sv, sk) = fr[*s % n].clone();
            res.reach(format!("{}|{}|{}", nm, av.repr_class(), scalar_class(&sk)));
            let v = if *left { G::mul_left(sv, av) } else { av * sv };
            bank.regs[*dst % n] = (v, model::mmul(&ak, &sk, r));
            (Some(*dst % n), Ok(()))
        }
        GOp::MulK { dst, a, k, left, .. } => {
            let (av, ak) = bank.regs[*a % n].clone();
            let sk = from_be(&unhex(k)) % r;
            let sv = fr_of(&sk);
            res.reach(format!("{}|{}|{}", nm, av.repr_class(), scalar_class(&sk)));
            let v = if *left { G::mul_left(sv, av) } else { av * sv };
            bank.regs[*dst % n] = (v, model::mmul(&ak, &sk, r));
            (Some(*dst % n), Ok(()))
        }
        GOp::Normalize { dst, .. } => {
            let d = *dst % n;
            res.reach(format!("{}|{}", nm, bank.regs[d].0.repr_class()));
            let mut v = bank.regs[d].0;
            v.normalize();
            bank.regs[d].0 = v;
            (Some(d), Ok(()))
        }
        GOp::AffineRt { dst, a, .. } => {
            let (av, ak) = bank.regs[*a % n].clone();
            res.reach(format!("{}|{}", nm, av.repr_class()));
            match av.affine_rt() {
                Some(v) => {
                    bank.regs[*dst % n] = (v, ak);
                    (Some(*dst % n), Ok(()))
                }
                None => {
                    if ak.is_zero() {
                        (None, Ok(()))
                    } else {
                        (None, Err(("4".into(), format!("{}: affine conversion of a non-identity value failed", G::NAME))))
                    }
                }
            }
        }
        GOp::Codec { dst, a, fmt, .. } => {
            let (av, ak) = bank.regs[*a % n].clone();
            if ak.is_zero() {
                // the formats are defined for non-identity points only
                return (None, Ok(()));
            }
            res.reach(format!("{}|{}", nm, av.repr_class()));
            let bytes = av.enc(*fmt);
            match G::dec(&bytes, *fmt) {
                Ok(v) => {
                    bank.regs[*dst % n] = (v, ak);
                    (Some(*dst % n), Ok(()))
                }
                Err(e) => (None, Err(("4".into(), format!("{}: decoding its own {} encoding failed: {}", G::NAME, fmt.name(), e)))),
            }
        }
        GOp::Copy { dst, a, .. } => {
            let x = bank.regs[*a % n].clone();
            bank.regs[*dst % n] = x;
            (Some(*dst % n), Ok(()))
        }
        GOp::SetGen { dst, .. } => {
            bank.regs[*dst % n] = (G::one(), BigUint::one());
            (Some(*dst % n), Ok(()))
        }
        GOp::SetZero { dst, .. } => {
            bank.regs[*dst % n] = (G::zero(), BigUint::zero());
            (Some(*dst % n), Ok(()))
        }
        GOp::Rescale { dst, lam, .. } => {
            let d = *dst % n;
            res.reach(format!("{}|{}", nm, bank.regs[d].0.repr_class()));
            match bank.regs[d].0.rescale(&unhex(lam)) {
                Some(v) => {
                    bank.regs[d].0 = v;
                    (Some(d), Ok(()))
                }
                None => (None, Ok(())),
            }
        }
        GOp::RescaleTo { dst, which, target, .. } => {
            let d = *dst % n;
            let v = bank.regs[d].0;
            if bank.regs[d].1.is_zero() {
                return (None, Ok(()));
            }
            res.reach(format!("{}|{}", nm, v.repr_class()));
            let t = from_be(&unhex(target)) % model::q();
            match v.aim(*which, &t).and_then(|lam| v.rescale(&lam)) {
                Some(w) => {
                    res.count("rescale_to_applied");
                    bank.regs[d].0 = w;
                    (Some(d), Ok(()))
                }
                None => (None, Ok(())),
            }
        }
        _ => unreachable!(),
    }
}

fn scalar_class(k: &BigUint) -> &'static str {
    let r = model::r();
    if k.is_zero() {
        "0"
    } else if k.is_one() {
        "1"
    } else if *k == BigUint::from(2u32) {
        "2"
    } else if *k == r - 1u32 {
        "r-1"
    } else if *k == r - 2u32 {
        "r-2"
    } else if k.bits() <= 64 {
        "small"
    } else if k.count_ones() <= 4 {
        "sparse"
    } else if k.bits() < 200 {
        "short"
    } else {
        "full"
    }
}

fn gt_base(st: &mut St) -> Gt {
    if let Some(g) = st.gt_base {
        return g;
    }
    let g = pairing(G1::one(), G2::one());
    st.gt_base = Some(g);
    g
}

/// the pairing value the property predicts for (k1, k2)
fn expected_pair(st: &mut St, prop: &str, k1: &BigUint, k2: &BigUint) -> Vec<u8> {
    let r = model::r();
    if k1.is_zero() || k2.is_zero() {
        return Gt::one().to_slice().to_vec();
    }
    if prop == "C03" {
        // C03: the value obtained from the normalised fresh representatives
        let key = (k1.clone(), k2.clone());
        if let Some(v) = st.fresh_pair.get(&key) {
            return v.clone();
        }
        let mut p = st.g1.fresh(k1);
        let mut q = st.g2.fresh(k2);
        p.normalize();
        q.normalize();
        let v = pairing(p, q).to_slice().to_vec();
        st.fresh_pair.insert(key, v.clone());
        v
    } else {
        // C16: predicted from the discrete logarithms alone: e(P1,P2)^(k1*k2)
        let e = model::mmul(k1, k2, r);
        gt_base(st).pow(fr_of(&e)).to_slice().to_vec()
    }
}

fn observe_pair(st: &mut St, prop: &str, i: usize, j: usize, budget: u64, res: &mut RunResult) -> (Vec<u8>, Check) {
    let (p, k1) = st.g1.regs[i].clone();
    let (q, k2) = st.g2.regs[j].clone();
    let exp = expected_pair(st, prop, &k1, &k2);
    // model-side reach tuple (independent of the representation the library happens to use)
    res.reach(format!("pairobs|{}|{}", if k1.is_zero() { "O" } else { "P" }, if k2.is_zero() { "O" } else { "P" }));
    let mut outcome = Vec::new();
    let mut results: Vec<(&'static str, Vec<u8>)> = Vec::new();
    let entries: [(&'static str, Box<dyn Fn() -> Gt>); 3] = [
        ("pairing", Box::new(move || pairing(p, q))),
        ("fast_pairing", Box::new(move || fast_pairing(p, q))),
        ("G2Prepared.pairing", Box::new(move || G2Prepared::from(q).pairing(&p))),
    ];
    for (name, f) in entries.iter() {
        res.reach(format!("{}|{}|{}", name, p.repr_class(), q.repr_class()));
        match guarded(budget.saturating_mul(16), || f()) {
            Ok(g) => {
                let b = g.to_slice().to_vec();
                outcome.extend_from_slice(&b[..16]);
                // == must agree with byte equality
                let one_eq = g == Gt::one();
                let one_bytes = b == Gt::one().to_slice().to_vec();
                if one_eq != one_bytes {
                    return (outcome, Err((inv(prop, 1), format!("{}: == Gt::one() is {} but the encodings say {}", name, one_eq, one_bytes))));
                }
                results.push((name, b));
            }
            Err(msg) => {
                res.panics.push((0, msg.clone()));
                outcome.extend_from_slice(msg.as_bytes());
                let n = if prop == "C03" { 4 } else { 5 };
                return (
                    outcome,
                    Err((
                        inv(prop, n),
                        format!("{}(G1 {} k={}, G2 {} k={}) did not return normally: {}", name, p.repr_class(), short_k(&k1), q.repr_class(), short_k(&k2), short(&msg)),
                    )),
                );
            }
        }
    }
    for (name, b) in &results {
        if *b != exp {
            let what = if k1.is_zero() || k2.is_zero() { "Gt::one() (an argument is the identity)".to_string() } else { "the value predicted for these group elements".to_string() };
            let n = if prop == "C03" { 2 } else { 5 };
            let agree = results.iter().all(|(_, x)| x == &results[0].1);
            let n = if prop == "C03" && !agree { 1 } else { n };
            return (
                outcome,
                Err((
                    inv(prop, n),
                    format!(
                        "entry={} g1={} g2={}: result differs from {} (k1 = {}, k2 = {}; the three entry points {} among themselves)",
                        name,
                        p.repr_class(),
                        q.repr_class(),
                        what,
                        short_k(&k1),
                        short_k(&k2),
                        if agree { "agree" } else { "disagree" }
                    ),
                )),
            );
        }
    }
    (outcome, Ok(()))
}

pub fn exec(spec: &GrpSpec, prop: &str) -> RunResult {
    let mut res = RunResult::default();
    let n = spec.n.max(1).min(8);
    let m = spec.m.max(1).min(8);
    let budget = spec.budget;
    let mut st = St {
        g1: Bank::new(n),
        g2: Bank::new(n),
        fr: (0..n).map(|i| if i % 2 == 0 { (Fr::one(), BigUint::one()) } else { (Fr::zero(), BigUint::zero()) }).collect(),
        prep: Vec::new(),
        prep_seen: BTreeMap::new(),
        prep_calls: vec![Vec::new(); m],
        fresh_pair: BTreeMap::new(),
        gt_base: None,
        reuse: vec![0; m],
    };
    for _ in 0..m {
        st.prep.push((G2Prepared::from(G2::one()), BigUint::one()));
    }
    let mut dg = Digest::new();
    let r = model::r();
    for (step, op) in spec.ops.iter().enumerate() {
        res.steps += 1;
        let opname = op.name();
        let mut viol: Option<(String, String)> = None;
        let mut outcome: Vec<u8> = Vec::new();
        let mut sigx = String::new();
        // a field inversion costs ~540 ticks, a pairing entry point 4.5-6.5k: budgets leave a
        // factor >= 7 of slack and still stop a divergent loop within microseconds
        let step_budget = match op {
            GOp::Pair { .. } | GOp::Prep { .. } | GOp::PrepPair { .. } | GOp::PrepClone { .. } => budget.saturating_mul(32),
            _ => budget,
        };
        let stepres = guarded(step_budget, || -> StepOut {
            match op {
                GOp::Add { g, .. }
                | GOp::Sub { g, .. }
                | GOp::Neg { g, .. }
                | GOp::Dbl { g, .. }
                | GOp::MulReg { g, .. }
                | GOp::MulK { g, .. }
                | GOp::Normalize { g, .. }
                | GOp::AffineRt { g, .. }
                | GOp::Codec { g, .. }
                | GOp::Copy { g, .. }
                | GOp::SetGen { g, .. }
                | GOp::SetZero { g, .. }
                | GOp::Rescale { g, .. }
                | GOp::RescaleTo { g, .. } => {
                    let (w, c) = match g {
                        Grp::G1 => {
                            let (w, c) = group_step(&mut st.g1, &st.fr, op, n, &mut res);
                            (w.map(Wrote::G1), c)
                        }
                        Grp::G2 => {
                            let (w, c) = group_step(&mut st.g2, &st.fr, op, n, &mut res);
                            (w.map(Wrote::G2), c)
                        }
                    };
                    StepOut { wrote: w.unwrap_or(Wrote::Nothing("none")), extra: c.map_err(|(i, d)| (inv(prop, i.parse().unwrap_or(4)), d)) }
                }
                GOp::FrAdd { dst, a, b } => {
                    let (av, ak) = st.fr[*a % n].clone();
                    let (bv, bk) = st.fr[*b % n].clone();
                    st.fr[*dst % n] = (av + bv, model::madd(&ak, &bk, r));
                    ok(Wrote::Fr(*dst % n))
                }
                GOp::FrSub { dst, a, b } => {
                    let (av, ak) = st.fr[*a % n].clone();
                    let (bv, bk) = st.fr[*b % n].clone();
                    st.fr[*dst % n] = (av - bv, model::msub(&ak, &bk, r));
                    ok(Wrote::Fr(*dst % n))
                }
                GOp::FrMul { dst, a, b } => {
                    let (av, ak) = st.fr[*a % n].clone();
                    let (bv, bk) = st.fr[*b % n].clone();
                    st.fr[*dst % n] = (av * bv, model::mmul(&ak, &bk, r));
                    ok(Wrote::Fr(*dst % n))
                }
                GOp::FrNeg { dst, a } => {
                    let (av, ak) = st.fr[*a % n].clone();
                    st.fr[*dst % n] = (-av, model::mneg(&ak, r));
                    ok(Wrote::Fr(*dst % n))
                }
                GOp::FrInv { dst, a } => {
                    let (av, ak) = st.fr[*a % n].clone();
                    match av.inverse() {
                        Some(v) => {
                            let k = model::minv(&ak, r).unwrap_or_else(BigUint::zero);
                            st.fr[*dst % n] = (v, k);
                            ok(Wrote::Fr(*dst % n))
                        }
                        None => ok(Wrote::Nothing("None")),
                    }
                }
                GOp::FrConst { dst, k } => {
                    let kk = from_be(&unhex(k)) % r;
                    st.fr[*dst % n] = (fr_of(&kk), kk);
                    ok(Wrote::Fr(*dst % n))
                }
                GOp::FrRandom { dst, mode, sub } => {
                    let mut g = SimRng::new(mode.clone(), *sub);
                    let v = Fr::random(&mut g);
                    // the one place a library output enters the model: the drawn scalar
                    let k = from_be(&v.to_slice());
                    res.count(&format!("rng_mode_fired:{}", mode.name()));
                    st.fr[*dst % n] = (v, k);
                    ok(Wrote::Fr(*dst % n))
                }
                GOp::Prep { slot, g2 } => {
                    let (q, k) = st.g2.regs[*g2 % n].clone();
                    res.reach(format!("{}|{}", opname, q.repr_class()));
                    st.prep[*slot % m] = (G2Prepared::from(q), k);
                    st.reuse[*slot % m] = 0;
                    st.prep_calls[*slot % m].clear();
                    ok(Wrote::Nothing("prepared"))
                }
                GOp::PrepClone { slot, from, via_from } => {
                    let (src, k) = st.prep[*from % m].clone();
                    if *via_from {
                        st.prep[*slot % m].0.clone_from(&src);
                        st.prep[*slot % m].1 = k;
                    } else {
                        st.prep[*slot % m] = (src, k);
                    }
                    ok(Wrote::Nothing("cloned"))
                }
                GOp::PrepPair { slot, g1 } => {
                    let s = *slot % m;
                    let (p, k1) = st.g1.regs[*g1 % n].clone();
                    let k2 = st.prep[s].1.clone();
                    res.reach(format!("{}|{}", opname, p.repr_class()));
                    res.reach(format!("prepobs|{}|{}", if k1.is_zero() { "O" } else { "P" }, if k2.is_zero() { "O" } else { "P" }));
                    let g = st.prep[s].0.pairing(&p).to_slice().to_vec();
                    st.reuse[s] += 1;
                    st.prep_calls[s].push(k1.clone());
                    // shape of the call order on this prepared value: inputs numbered by first
                    // occurrence (e.g. 0,1,0,1), last 6 calls
                    {
                        let calls = &st.prep_calls[s];
                        let tail = &calls[calls.len().saturating_sub(6)..];
                        let mut ids: Vec<&BigUint> = Vec::new();
                        let mut shape = String::new();
                        for c in tail {
                            let id = match ids.iter().position(|x| *x == c) {
                                Some(i) => i,
                                None => {
                                    ids.push(c);
                                    ids.len() - 1
                                }
                            };
                            shape.push_str(&id.to_string());
                        }
                        res.reach(format!("call_order|{}", shape));
                    }
                    let exp = expected_pair(&mut st, prop, &k1, &k2);
                    let mut c: Check = Ok(());
                    let key = (k2.clone(), k1.clone());
                    if let Some(first) = st.prep_seen.get(&key) {
                        if *first != g {
                            c = Err((inv(prop, 3), format!("prepared slot reused: result for (k_slot {}, k_g1 {}) differs from the first result for the same pair of group elements", short_k(&k2), short_k(&k1))));
                        }
                    } else {
                        st.prep_seen.insert(key, g.clone());
                    }
                    if c.is_ok() && g != exp {
                        let nn = if prop == "C03" { 3 } else { 5 };
                        c = Err((
                            inv(prop, nn),
                            format!("entry=G2Prepared.pairing(reused slot) g1={}: result differs from the predicted value (k_slot {}, k_g1 {})", p.repr_class(), short_k(&k2), short_k(&k1)),
                        ));
                    }
                    StepOut { wrote: Wrote::Obs(g[..16].to_vec()), extra: c }
                }
                GOp::Pair { .. } => ok(Wrote::Nothing("pair")),
            }
        });
        match stepres {
            Err(msg) => {
                res.panics.push((step, msg.clone()));
                outcome = msg.clone().into_bytes();
                let nn = if prop == "C03" { 4 } else { 6 };
                let nn = if matches!(op, GOp::PrepPair { .. } | GOp::Prep { .. }) && prop != "C03" { 5 } else { nn };
                viol = Some((inv(prop, nn), format!("{} did not return normally: {}", opname, short(&msg))));
            }
            Ok(out) => {
                if let Err(e) = out.extra {
                    viol = Some(e);
                } else {
                    match out.wrote {
                        Wrote::Nothing(t) => outcome = t.as_bytes().to_vec(),
                        Wrote::Obs(b) => outcome = b,
                        Wrote::Fr(i) => {
                            let (v, k) = st.fr[i].clone();
                            let b = v.to_slice();
                            outcome = b.to_vec();
                            if from_be(&b) != k {
                                viol = Some((inv(prop, 6), format!("Fr reg{}: to_slice {} but the model says {}", i, hex(&b), hex(&be32(&k)))));
                            }
                        }
                        Wrote::G1(i) => {
                            let c = guarded(budget.saturating_mul(8), || check_group(&mut st.g1, i, prop, prop != "C03"));
                            match c {
                                Ok(Ok(())) => {
                                    let (v, k) = st.g1.regs[i].clone();
                                    outcome = if k.is_zero() {
                                        b"O".to_vec()
                                    } else if prop == "C03" {
                                        be32(&k).to_vec()
                                    } else {
                                        v.enc(Fmt::Raw)
                                    };
                                }
                                Ok(Err(e)) => viol = Some(e),
                                Err(msg) => {
                                    res.panics.push((step, msg.clone()));
                                    outcome = msg.clone().into_bytes();
                                    viol = Some((inv(prop, 4), format!("observing the G1 result of {} did not return normally: {}", opname, short(&msg))));
                                }
                            }
                        }
                        Wrote::G2(i) => {
                            let c = guarded(budget.saturating_mul(8), || check_group(&mut st.g2, i, prop, prop != "C03"));
                            match c {
                                Ok(Ok(())) => {
                                    let (v, k) = st.g2.regs[i].clone();
                                    outcome = if k.is_zero() {
                                        b"O".to_vec()
                                    } else if prop == "C03" {
                                        be32(&k).to_vec()
                                    } else {
                                        v.enc(Fmt::Raw)
                                    };
                                }
                                Ok(Err(e)) => viol = Some(e),
                                Err(msg) => {
                                    res.panics.push((step, msg.clone()));
                                    outcome = msg.clone().into_bytes();
                                    viol = Some((inv(prop, 4), format!("observing the G2 result of {} did not return normally: {}", opname, short(&msg))));
                                }
                            }
                        }
                    }
                }
            }
        }
        if viol.is_none() {
            if let GOp::Pair { g1, g2 } = op {
                let (o, c) = match guarded(budget.saturating_mul(64), || observe_pair(&mut st, prop, *g1 % n, *g2 % n, budget, &mut res)) {
                    Ok(x) => x,
                    Err(msg) => (
                        msg.clone().into_bytes(),
                        Err((inv(prop, 2), format!("entry=reference computing the predicted pairing value did not return normally: {}", short(&msg)))),
                    ),
                };
                outcome = o;
                if let Err(e) = c {
                    // the signature of a pairing violation names entry point and the
                    // representation classes, so that distinct failure patterns stay distinct
                    let p = st.g1.regs[*g1 % n].0.repr_class();
                    let q = st.g2.regs[*g2 % n].0.repr_class();
                    let entry = e.1.split_whitespace().next().unwrap_or("").to_string();
                    let entry = if entry.starts_with("entry=") { entry } else { format!("entry={}", entry.split('(').next().unwrap_or("")) };
                    sigx = format!("|{}|g1={}|g2={}", entry, p, q);
                    viol = Some(e);
                }
            }
        }
        dg.u64(step as u64);
        dg.bytes(&outcome);
        res.step_digests.push(dg.0);
        // (Under C03 the monitors only run the identity / equality part (I16.1-3): encodings,
        // affine conversion and normalize() are other properties' observers, and a fault there
        // does not put the group element in doubt - the pairing observation must still be made.)
        // C03 speaks about the pairing entry points only. If a *group* operation disagrees
        // with the model, the model has lost track of which group elements the registers
        // hold, so nothing can be said about C03 any more: the run is abandoned (counted),
        // not reported - that disagreement is C16's to report.
        if viol.is_some() && prop == "C03" && !matches!(op, GOp::Pair { .. } | GOp::Prep { .. } | GOp::PrepClone { .. } | GOp::PrepPair { .. }) {
            res.count("abandoned_group_semantics_mismatch");
            break;
        }
        if let Some((invn, detail)) = viol {
            res.violation = Some(Violation {
                property: prop.to_string(),
                invariant: invn.clone(),
                step,
                signature: format!("{}|{}|op={}{}", prop, invn, opname, sigx),
                detail,
            });
            break;
        }
    }
    let mx = st.reuse.iter().copied().max().unwrap_or(0);
    if mx > 0 {
        res.count_n("prepared_reuse_total", st.reuse.iter().sum());
        res.reach(format!("prepared_reuse_max>={}", mx.min(8)));
    }
    res.fingerprint = dg.0;
    res
}

// ---------------------------------------------------------------------------------------
// generator

/// eigenvalue of the endomorphism (x, y) -> (beta x, y) of the j = 0 curve on the order-r
/// subgroups: l = 36 t^4 - 1 mod r, a primitive cube root of unity mod r. [l]P has the same y
/// as P and another x, so k and -l*k (or l*k) are the scalars that meet the adder's
/// "same y / opposite y but different x" situations.
pub fn endo_lambda() -> BigUint {
    let r = model::r();
    let t = BigUint::from(0x600000000058F98Au64);
    let t2 = &t * &t;
    let l = ((&t2 * &t2 * 36u32) - 1u32) % r;
    debug_assert!(((&l * &l + &l + 1u32) % r).is_zero());
    l
}

/// Fq constants whose *stored* (Montgomery) form is special: R^-1 (limbs 1,0,0,0), R, R^2,
/// 2^-64, -1, 2, (q-1)/2, or any limb pattern from the boundary alphabet
pub fn special_fq(pr: &mut Prng) -> BigUint {
    let q = model::q();
    let rr = BigUint::one() << 256;
    let rinv = model::minv(&(&rr % q), q).unwrap();
    match pr.below(9) {
        0 | 1 => rinv,
        2 => &rr % q,
        3 => (&rr * &rr) % q,
        4 => model::minv(&((BigUint::one() << 64) % q), q).unwrap(),
        5 => q - 1u32,
        6 => (q - 1u32) >> 1,
        _ => {
            let l = crate::world_fld::limb_patterns(pr, q) % q;
            let v = (l * &rinv) % q;
            if v.is_zero() { BigUint::one() } else { v }
        }
    }
}

pub fn alphabet_scalar(pr: &mut Prng) -> BigUint {
    let r = model::r();
    match pr.below(16) {
        0 => BigUint::zero(),
        1 => BigUint::one(),
        2 => BigUint::from(2u32),
        3 => r - 1u32,
        4 => r - 2u32,
        5 => (r - 1u32) >> 1,
        6 => (r + 1u32) >> 1,
        7 => BigUint::one() << (pr.below(254) as u32),
        8 => {
            // sparse
            let mut v = BigUint::zero();
            for _ in 0..(1 + pr.below(3)) {
                v |= BigUint::one() << (pr.below(254) as u32);
            }
            v % r
        }
        9 => {
            // dense: long runs of ones
            let a = pr.below(254) as u32;
            ((BigUint::one() << a) - 1u32) % r
        }
        10 => BigUint::from(pr.below(1 << 16)),
        11 => {
            // constants with an algebraic relation to the curve: the BN parameter t, the Miller
            // loop count 6t+2, the trace, q mod r, Montgomery constants mod r, and neighbours
            let t = BigUint::from(0x600000000058F98Au64);
            let six_t_2 = &t * 6u32 + 2u32;
            let q = model::q();
            let two256 = BigUint::one() << 256;
            let pool: Vec<BigUint> = vec![
                t.clone(),
                six_t_2.clone(),
                r - &six_t_2,
                &six_t_2 + 1u32,
                &six_t_2 - 1u32,
                q % r,
                (q % r) - 1u32,
                (q + 1u32 - r) % r,
                (&t * &t) % r,
                (&t * &t * 36u32) % r,
                &two256 % r,
                (&two256 * &two256) % r,
                (r - 1u32) / 3u32,
                (r - 1u32) / 6u32,
                BigUint::from(3u32),
                BigUint::from(13u32),
                BigUint::from(1621u32),
                endo_lambda(),
                (endo_lambda() * endo_lambda()) % r,
            ];
            let v = pr.pick(&pool).clone();
            let v = if pr.chance(1, 4) { (r - v) % r } else { v };
            // the constant itself or a near neighbour (k = l^2 + 2 style scalars)
            match pr.below(6) {
                0 => (v + 1u32) % r,
                1 => (v + 2u32) % r,
                2 => (v + r - 1u32) % r,
                _ => v,
            }
        }
        _ => from_be(&pr.bytes(32)) % r,
    }
}

fn gen_lambda(pr: &mut Prng, g: Grp) -> String {
    let q = model::q();
    let pick = |pr: &mut Prng| -> BigUint {
        match pr.below(8) {
            6 | 7 => special_fq(pr),
            0 => q - 1u32,
            1 => BigUint::from(2u32),
            2 => BigUint::one(),
            3 => (q - 1u32) >> 1,
            _ => (from_be(&pr.bytes(32)) % (q - 1u32)) + 1u32,
        }
    };
    match g {
        Grp::G1 => hex(&be32(&pick(pr))),
        Grp::G2 => {
            // imaginary part first; allow a zero imaginary or zero real part, never both
            let mut im = if pr.chance(1, 4) { BigUint::zero() } else { pick(pr) };
            let re = if pr.chance(1, 6) { BigUint::zero() } else { pick(pr) };
            if im.is_zero() && re.is_zero() {
                im = BigUint::one();
            }
            let mut v = be32(&im).to_vec();
            v.extend_from_slice(&be32(&re));
            hex(&v)
        }
    }
}

/// the small op set of the short-program sweep (scalars from {0, 1, 2, r-1}, two registers)
fn sweep_ops(g: Grp) -> Vec<GOp> {
    let r = model::r();
    let ks = [BigUint::zero(), BigUint::one(), BigUint::from(2u32), r - 1u32];
    let mut v = Vec::new();
    for dst in 0..2 {
        for a in 0..2 {
            for b in 0..2 {
                v.push(GOp::Add { g, dst, a, b });
                v.push(GOp::Sub { g, dst, a, b });
            }
            v.push(GOp::Neg { g, dst, a });
            v.push(GOp::Dbl { g, dst, a });
            for k in &ks {
                for left in [false, true] {
                    v.push(GOp::MulK { g, dst, a, k: hex(&be32(k)), left });
                }
            }
            v.push(GOp::AffineRt { g, dst, a });
            for fmt in FMTS {
                v.push(GOp::Codec { g, dst, a, fmt });
            }
        }
        v.push(GOp::Normalize { g, dst });
    }
    v
}

pub fn sweep_size(depth: usize) -> u64 {
    let n = sweep_ops(Grp::G1).len() as u64;
    let mut total = 0u64;
    let mut p = 1u64;
    for _ in 0..depth {
        p *= n;
        total += p;
    }
    total * 2
}

/// bijection from 0..sweep_size(depth) onto all programs of depth <= `depth` over the sweep
/// op set, for each group; the program ends with a pairing observation of the last register
/// written against the other group's generator and identity
pub fn sweep_program(index: u64, depth: usize) -> GrpSpec {
    let g = if index % 2 == 0 { Grp::G1 } else { Grp::G2 };
    let mut i = index / 2;
    let ops_all = sweep_ops(g);
    let n = ops_all.len() as u64;
    let mut d = 1;
    let mut p = n;
    while i >= p && d < depth {
        i -= p;
        p *= n;
        d += 1;
    }
    let mut ops = Vec::new();
    for _ in 0..d {
        ops.push(ops_all[(i % n) as usize].clone());
        i /= n;
    }
    let last_dst = match ops.last().unwrap() {
        GOp::Add { dst, .. }
        | GOp::Sub { dst, .. }
        | GOp::Neg { dst, .. }
        | GOp::Dbl { dst, .. }
        | GOp::MulK { dst, .. }
        | GOp::AffineRt { dst, .. }
        | GOp::Codec { dst, .. }
        | GOp::Normalize { dst, .. } => *dst,
        _ => 0,
    };
    match g {
        Grp::G1 => {
            ops.push(GOp::Pair { g1: last_dst, g2: 0 });
            ops.push(GOp::Pair { g1: last_dst, g2: 1 });
        }
        Grp::G2 => {
            ops.push(GOp::Pair { g1: 0, g2: last_dst });
            ops.push(GOp::Pair { g1: 1, g2: last_dst });
        }
    }
    GrpSpec { n: 2, m: 1, budget: DEFAULT_BUDGET, ops }
}

/// random W-grp program. `pairing_heavy` = the C03 configuration (rescale + prepared reuse).
pub fn generate(seed: u64, pairing_heavy: bool) -> GrpSpec {
    let mut cfg = Prng::split(seed, "cfg");
    let mut pr = Prng::split(seed, "prog");
    let n = 2 + cfg.usize_below(5);
    let m = 1 + cfg.usize_below(3);
    let len = if pairing_heavy { cfg.length(10, 50) } else { cfg.length(8, 80) };
    // swarm: op classes
    // 0 add/sub 1 neg/dbl 2 mul 3 normalize/affine/codec/copy 4 fr ops 5 rng 6 set gen/zero
    // 7 pair 8 prepared 9 rescale
    // class 10: related-history templates (see below)
    // class 11: prepared-value reuse templates (pairing-heavy configuration only)
    let mut w: [u64; 12] = [8, 3, 5, 4, 3, 1, 1, 1, 0, 0, 3, 0];
    if pairing_heavy {
        w = [6, 2, 3, 3, 2, 1, 1, 3, 6, 3, 2, 3];
    }
    for (i, x) in w.iter_mut().enumerate() {
        if i != 0 && !cfg.chance(4, 5) {
            *x = 0;
        }
    }
    if pairing_heavy {
        w[8] = w[8].max(3);
        w[7] = w[7].max(1);
    }
    let scalar_mode = cfg.below(4); // 0 alphabet only, 1 boundary+random, 2 random, 3 mix
    let g_bias = cfg.below(3); // 0 both, 1 mostly G1, 2 mostly G2
    let total: u64 = w.iter().sum();
    let r = model::r();
    let mut ops = Vec::new();
    let scalar = |pr: &mut Prng| -> BigUint {
        match scalar_mode {
            0 => {
                let ks = [BigUint::zero(), BigUint::one(), BigUint::from(2u32), r - 1u32];
                pr.pick(&ks).clone()
            }
            2 => from_be(&pr.bytes(32)) % r,
            _ => alphabet_scalar(pr),
        }
    };
    while ops.len() < len {
        let mut x = pr.below(total);
        let mut class = 0;
        for (i, wi) in w.iter().enumerate() {
            if x < *wi {
                class = i;
                break;
            }
            x -= wi;
        }
        let g = match g_bias {
            1 => if pr.chance(4, 5) { Grp::G1 } else { Grp::G2 },
            2 => if pr.chance(4, 5) { Grp::G2 } else { Grp::G1 },
            _ => if pr.chance(1, 2) { Grp::G1 } else { Grp::G2 },
        };
        let dst = pr.usize_below(n);
        let a = pr.usize_below(n);
        let b = pr.usize_below(n);
        match class {
            0 => {
                if pr.chance(1, 2) {
                    ops.push(GOp::Add { g, dst, a, b });
                } else {
                    ops.push(GOp::Sub { g, dst, a, b });
                }
            }
            1 => {
                if pr.chance(1, 2) {
                    ops.push(GOp::Neg { g, dst, a });
                } else {
                    ops.push(GOp::Dbl { g, dst, a });
                }
            }
            2 => {
                let left = pr.chance(1, 2);
                if pr.chance(1, 3) {
                    ops.push(GOp::MulReg { g, dst, a, s: b, left });
                } else {
                    ops.push(GOp::MulK { g, dst, a, k: hex(&be32(&scalar(&mut pr))), left });
                }
            }
            3 => match pr.below(4) {
                0 => ops.push(GOp::Normalize { g, dst }),
                1 => ops.push(GOp::AffineRt { g, dst, a }),
                2 => ops.push(GOp::Codec { g, dst, a, fmt: *pr.pick(&FMTS) }),
                _ => ops.push(GOp::Copy { g, dst, a }),
            },
            4 => match pr.below(6) {
                0 => ops.push(GOp::FrAdd { dst, a, b }),
                1 => ops.push(GOp::FrSub { dst, a, b }),
                2 => ops.push(GOp::FrMul { dst, a, b }),
                3 => ops.push(GOp::FrNeg { dst, a }),
                4 => ops.push(GOp::FrInv { dst, a }),
                _ => ops.push(GOp::FrConst { dst, k: hex(&be32(&scalar(&mut pr))) }),
            },
            5 => {
                let mode = match pr.below(6) {
                    0 => RngMode::Zeros,
                    1 => RngMode::Ones,
                    2 => RngMode::ConstWord(pr.next_u64()),
                    _ => RngMode::Honest,
                };
                ops.push(GOp::FrRandom { dst, mode, sub: pr.next_u64() });
            }
            6 => {
                if pr.chance(1, 2) {
                    ops.push(GOp::SetGen { g, dst });
                } else {
                    ops.push(GOp::SetZero { g, dst });
                }
            }
            7 => ops.push(GOp::Pair { g1: a, g2: b }),
            8 => match pr.below(6) {
                0 => ops.push(GOp::Prep { slot: pr.usize_below(m), g2: a }),
                1 => ops.push(GOp::PrepClone { slot: pr.usize_below(m), from: pr.usize_below(m), via_from: pr.chance(1, 2) }),
                _ => ops.push(GOp::PrepPair { slot: pr.usize_below(m), g1: a }),
            },
            9 => {
                if pr.chance(1, 3) {
                    let q = model::q();
                    let t = match pr.below(6) {
                        0 | 1 => BigUint::one(),
                        2 => q - 1u32,
                        3 => BigUint::from(2u32),
                        _ => special_fq(&mut pr),
                    };
                    ops.push(GOp::RescaleTo { g, dst, which: pr.below(2) as u8, target: hex(&be32(&t)) });
                } else {
                    ops.push(GOp::Rescale { g, dst, lam: gen_lambda(&mut pr, g) });
                }
            }
            11 => {
                // call-order templates on one prepared value: inputs related to each other (same x,
                // same value in another representation, repeated), clones taken before the slot is
                // overwritten, the same G1 value through two slots
                let slot = pr.usize_below(m);
                let slot2 = pr.usize_below(m);
                let c = pr.usize_below(n);
                match pr.below(7) {
                    0 => {
                        ops.push(GOp::PrepPair { slot, g1: a });
                        ops.push(GOp::Neg { g: Grp::G1, dst: c, a });
                        ops.push(GOp::PrepPair { slot, g1: c });
                        ops.push(GOp::PrepPair { slot, g1: a });
                    }
                    1 => {
                        ops.push(GOp::PrepPair { slot, g1: a });
                        ops.push(GOp::PrepPair { slot, g1: a });
                        ops.push(GOp::Pair { g1: a, g2: b });
                    }
                    2 => {
                        ops.push(GOp::Prep { slot, g2: b });
                        ops.push(GOp::PrepClone { slot: slot2, from: slot, via_from: pr.chance(1, 2) });
                        ops.push(GOp::Prep { slot, g2: c });
                        ops.push(GOp::PrepPair { slot: slot2, g1: a });
                        ops.push(GOp::PrepPair { slot, g1: a });
                    }
                    3 => {
                        ops.push(GOp::PrepPair { slot, g1: a });
                        ops.push(GOp::Rescale { g: Grp::G1, dst: a, lam: gen_lambda(&mut pr, Grp::G1) });
                        ops.push(GOp::PrepPair { slot, g1: a });
                        ops.push(GOp::Normalize { g: Grp::G1, dst: a });
                        ops.push(GOp::PrepPair { slot, g1: a });
                    }
                    4 => {
                        // interleave two G1 inputs on one slot: A, B, A, B
                        ops.push(GOp::PrepPair { slot, g1: a });
                        ops.push(GOp::PrepPair { slot, g1: c });
                        ops.push(GOp::PrepPair { slot, g1: a });
                        ops.push(GOp::PrepPair { slot, g1: c });
                    }
                    5 => {
                        // both arguments rescaled by the same special constant (stored form 1,
                        // R, R^2, limb patterns): z values with special stored limbs on both sides
                        let lv = special_fq(&mut pr);
                        let l1 = hex(&be32(&lv));
                        let mut l2 = be32(&BigUint::zero()).to_vec();
                        l2.extend_from_slice(&be32(&lv));
                        ops.push(GOp::Normalize { g: Grp::G1, dst: a });
                        ops.push(GOp::Normalize { g: Grp::G2, dst: b });
                        ops.push(GOp::Rescale { g: Grp::G1, dst: a, lam: l1 });
                        ops.push(GOp::Rescale { g: Grp::G2, dst: b, lam: hex(&l2) });
                        ops.push(GOp::Pair { g1: a, g2: b });
                        ops.push(GOp::Prep { slot, g2: b });
                        ops.push(GOp::PrepPair { slot, g1: a });
                    }
                    _ => {
                        // prepare from a rescaled / non-normalised source, then compare with the
                        // one-shot entry points on the same registers
                        ops.push(GOp::Rescale { g: Grp::G2, dst: b, lam: gen_lambda(&mut pr, Grp::G2) });
                        ops.push(GOp::Prep { slot, g2: b });
                        ops.push(GOp::PrepPair { slot, g1: a });
                        ops.push(GOp::Pair { g1: a, g2: b });
                    }
                }
            }
            _ => {
                // related-history templates: registers whose values are related by construction
                // (mirrored, sharing a Jacobian z, equal in two representations, opposite), so
                // that the special-case branches of the adder and of == are met on purpose
                let c = pr.usize_below(n);
                let kk = hex(&be32(&scalar(&mut pr)));
                match pr.below(9) {
                    0 => {
                        // commuted pair: A+B and B+A
                        ops.push(GOp::Add { g, dst, a, b });
                        ops.push(GOp::Add { g, dst: c, a: b, b: a });
                    }
                    1 => {
                        // A+B and A-B share their z; then combine them
                        ops.push(GOp::Add { g, dst, a, b });
                        ops.push(GOp::Sub { g, dst: c, a, b });
                        if pr.chance(1, 2) {
                            ops.push(GOp::Add { g, dst: a, a: dst, b: c });
                        } else {
                            ops.push(GOp::Sub { g, dst: a, a: dst, b: c });
                        }
                    }
                    2 => {
                        // the same element in two representations, then added / subtracted
                        ops.push(GOp::MulK { g, dst, a, k: kk, left: pr.chance(1, 2) });
                        ops.push(GOp::Copy { g, dst: c, a: dst });
                        ops.push(GOp::Normalize { g, dst: c });
                        if pr.chance(1, 2) {
                            ops.push(GOp::Add { g, dst: b, a: dst, b: c });
                        } else {
                            ops.push(GOp::Sub { g, dst: b, a: c, b: dst });
                        }
                    }
                    3 => {
                        // k*A and (r-k)*A: opposite points, both Jacobian
                        let kv = from_be(&unhex(&kk)) % r;
                        ops.push(GOp::MulK { g, dst, a, k: kk.clone(), left: false });
                        ops.push(GOp::MulK { g, dst: c, a, k: hex(&be32(&model::mneg(&kv, r))), left: true });
                        ops.push(GOp::Add { g, dst: b, a: dst, b: c });
                    }
                    4 => {
                        // -(B-A) against A-B: mirrored subtraction
                        ops.push(GOp::Sub { g, dst, a, b });
                        ops.push(GOp::Sub { g, dst: c, a: b, b: a });
                        ops.push(GOp::Neg { g, dst: c, a: c });
                    }
                    5 => {
                        // two normalised points, both orders
                        ops.push(GOp::Normalize { g, dst: a });
                        ops.push(GOp::Normalize { g, dst: b });
                        ops.push(GOp::Add { g, dst, a, b });
                        ops.push(GOp::Add { g, dst: c, a: b, b: a });
                    }
                    6 => {
                        // decode round trip of one operand, then add to the Jacobian original
                        ops.push(GOp::Codec { g, dst: c, a, fmt: *pr.pick(&FMTS) });
                        ops.push(GOp::Add { g, dst, a, b: c });
                    }
                    _ => {
                        // k*A and (s*k)*A for s in {l, l^2, -l, -l^2} (endomorphism eigenvalue):
                        // same or opposite y with a different x; both Jacobian or both normalised
                        let kv = (from_be(&unhex(&kk)) % r).max(BigUint::one());
                        let l = endo_lambda();
                        let sv = match pr.below(4) {
                            0 => l.clone(),
                            1 => (&l * &l) % r,
                            2 => r - &l,
                            _ => r - ((&l * &l) % r),
                        };
                        ops.push(GOp::MulK { g, dst, a, k: hex(&be32(&kv)), left: false });
                        ops.push(GOp::MulK { g, dst: c, a, k: hex(&be32(&((&kv * &sv) % r))), left: pr.chance(1, 2) });
                        if pr.chance(1, 2) {
                            ops.push(GOp::Normalize { g, dst });
                            ops.push(GOp::Normalize { g, dst: c });
                        }
                        ops.push(GOp::Add { g, dst: b, a: dst, b: c });
                        ops.push(GOp::Sub { g, dst: b, a: dst, b: c });
                        ops.push(GOp::Sub { g, dst: b, a: c, b: dst });
                    }
                }
            }
        }
    }
    // always end with one observation so that every history is looked at through a pairing
    if !pairing_heavy {
        ops.push(GOp::Pair { g1: pr.usize_below(n), g2: pr.usize_below(n) });
    }
    GrpSpec { n, m, budget: DEFAULT_BUDGET, ops }
}
