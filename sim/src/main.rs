//! sm9sim: deterministic simulator for sm9_core. See /verif/DESIGN.md.
//!
//!   sm9sim selftest
//!   sm9sim run    --world W --prop Cxx --seed S --start A --count N [--stride K --offset J]
//!                 [--fps] [--tier quick|thorough] --out FILE
//!   sm9sim gen    --world W --seed S --index I          (prints the RunSpec)
//!   sm9sim replay --file F [--steps]                    (prints the result as JSON)

mod common;
mod model;
mod rng;
mod world_fld;
mod world_grp;
mod world_misc;
mod world_wire;

use common::*;
use serde::{Deserialize, Serialize};
use serde_json::json;
use std::collections::{BTreeMap, BTreeSet};

#[derive(Clone, Debug, Serialize, Deserialize)]
#[serde(tag = "world")]
pub enum Spec {
    #[serde(rename = "fld")]
    Fld(world_fld::FldSpec),
    #[serde(rename = "grp")]
    Grp(world_grp::GrpSpec),
    #[serde(rename = "wire8")]
    Wire8(world_wire::Wire8Spec),
    #[serde(rename = "wire9")]
    Wire9(world_wire::Wire9Spec),
    #[serde(rename = "wire10")]
    Wire10(world_wire::Wire10Spec),
    #[serde(rename = "misc")]
    Misc(world_misc::MiscSpec),
}

pub fn world_id(w: &str) -> u64 {
    match w {
        "fld" => 1,
        "grp" => 2,
        "pair" => 3,
        "wire8" => 4,
        "wire9" => 5,
        "wire10" => 6,
        "misc" => 7,
        _ => 99,
    }
}

pub struct GenCtx {
    pub tier_thorough: bool,
}

fn generate(world: &str, master: u64, index: u64, ctx: &GenCtx) -> Result<Spec, String> {
    let seed = rng::run_seed(master, world_id(world), index);
    match world {
        "fld" => Ok(Spec::Fld(world_fld::generate(seed))),
        "grp" => {
            // the first indices of a batch are the short-program sweep (DESIGN 3.5)
            let depth = if ctx.tier_thorough { 3 } else { 2 };
            if index < world_grp::sweep_size(depth) {
                Ok(Spec::Grp(world_grp::sweep_program(index, depth)))
            } else {
                Ok(Spec::Grp(world_grp::generate(seed, false)))
            }
        }
        "pair" => Ok(Spec::Grp(world_grp::generate(seed, true))),
        "wire8" => Ok(Spec::Wire8(world_wire::generate8(seed, index, ctx.tier_thorough))),
        "wire9" => Ok(Spec::Wire9(world_wire::generate9(seed, index))),
        "wire10" => Ok(Spec::Wire10(world_wire::generate10(seed, index))),
        "misc" => Ok(Spec::Misc(world_misc::generate(seed))),
        _ => Err(format!("unknown world {}", world)),
    }
}

fn exec(spec: &Spec, prop: &str) -> RunResult {
    match spec {
        Spec::Fld(s) => world_fld::exec(s, prop),
        Spec::Grp(s) => world_grp::exec(s, prop),
        Spec::Wire8(s) => world_wire::exec8(s, prop),
        Spec::Wire9(s) => world_wire::exec9(s, prop),
        Spec::Wire10(s) => world_wire::exec10(s, prop),
        Spec::Misc(s) => world_misc::exec(s, prop),
    }
}

fn ops_len(spec: &Spec) -> usize {
    match spec {
        Spec::Fld(s) => s.ops.len(),
        Spec::Grp(s) => s.ops.len(),
        Spec::Wire8(s) => s.ops.len(),
        Spec::Wire9(s) => s.ops.len(),
        Spec::Wire10(s) => s.ops.len(),
        Spec::Misc(s) => s.ops.len(),
    }
}

fn keep_ops(spec: &Spec, keep: &[bool]) -> Spec {
    match spec {
        Spec::Fld(s) => {
            let mut t = s.clone();
            t.ops = s.ops.iter().zip(keep).filter(|(_, k)| **k).map(|(o, _)| o.clone()).collect();
            Spec::Fld(t)
        }
        Spec::Grp(s) => {
            let mut t = s.clone();
            t.ops = s.ops.iter().zip(keep).filter(|(_, k)| **k).map(|(o, _)| o.clone()).collect();
            Spec::Grp(t)
        }
        Spec::Wire8(s) => {
            let mut t = s.clone();
            t.ops = s.ops.iter().zip(keep).filter(|(_, k)| **k).map(|(o, _)| o.clone()).collect();
            Spec::Wire8(t)
        }
        Spec::Wire9(s) => {
            let mut t = s.clone();
            t.ops = s.ops.iter().zip(keep).filter(|(_, k)| **k).map(|(o, _)| o.clone()).collect();
            Spec::Wire9(t)
        }
        Spec::Wire10(s) => {
            let mut t = s.clone();
            t.ops = s.ops.iter().zip(keep).filter(|(_, k)| **k).map(|(o, _)| o.clone()).collect();
            Spec::Wire10(t)
        }
        Spec::Misc(s) => {
            let mut t = s.clone();
            t.ops = s.ops.iter().zip(keep).filter(|(_, k)| **k).map(|(o, _)| o.clone()).collect();
            Spec::Misc(t)
        }
    }
}

/// candidate simplifications of one op (world specific); each candidate is a full spec
fn simplify_candidates(spec: &Spec, i: usize) -> Vec<Spec> {
    // generic, on the JSON form of the op: register indices towards 0, booleans towards
    // false, scalars / byte strings towards 0, 1, 2, operator form towards by-value
    let mut out = Vec::new();
    let base = match serde_json::to_value(spec) {
        Ok(v) => v,
        Err(_) => return out,
    };
    let op = match base.get("ops").and_then(|o| o.get(i)) {
        Some(o) => o.clone(),
        None => return out,
    };
    let obj = match op.as_object() {
        Some(o) => o.clone(),
        None => return out,
    };
    let idx_keys = ["dst", "a", "b", "s", "e", "slot", "g1", "g2", "from", "x", "y", "z", "v", "which", "j13", "j1621", "bit", "o", "entry"];
    for (key, val) in obj.iter() {
        let mut cands: Vec<serde_json::Value> = Vec::new();
        match val {
            serde_json::Value::Number(n) => {
                if let Some(u) = n.as_u64() {
                    if idx_keys.contains(&key.as_str()) {
                        for c in [0u64, 1, 2] {
                            if c < u {
                                cands.push(serde_json::json!(c));
                            }
                        }
                    }
                }
            }
            serde_json::Value::Bool(true) => cands.push(serde_json::json!(false)),
            serde_json::Value::String(st) => {
                let is_hex = !st.is_empty() && st.len() % 2 == 0 && st.bytes().all(|c| c.is_ascii_hexdigit());
                if key == "form" && st != "VV" {
                    cands.push(serde_json::json!("VV"));
                } else if is_hex && (key == "k" || key == "lam" || key == "bytes") {
                    let n = st.len();
                    for last in ["00", "01", "02"] {
                        let c = format!("{}{}", "0".repeat(n - 2), last);
                        if c != *st {
                            cands.push(serde_json::json!(c));
                        }
                    }
                }
            }
            _ => {}
        }
        for c in cands {
            let mut v = base.clone();
            v["ops"][i][key] = c;
            if let Ok(sp) = serde_json::from_value::<Spec>(v) {
                out.push(sp);
            }
        }
    }
    out
}

static STATUS_PATH: std::sync::OnceLock<String> = std::sync::OnceLock::new();

/// execution used by the minimiser: the candidate spec is written to the status file first, so
/// that a candidate which makes a library call hang is the one the driver reports
fn exec_noted(spec: &Spec, prop: &str) -> RunResult {
    if let Some(p) = STATUS_PATH.get() {
        let _ = std::fs::write(p, format!("spec:{}\n", serde_json::to_string(spec).unwrap_or_default()));
    }
    exec(spec, prop)
}

fn same_failure(a: &Violation, b: &Option<Violation>) -> bool {
    match b {
        Some(v) => v.signature == a.signature,
        None => false,
    }
}

/// ddmin by deletion (any subsequence of a program is a valid program), then per-op
/// simplification, keeping the same violation signature. Bounded by `max_execs`.
fn with_single_op(spec: &Spec, op: &serde_json::Value) -> Option<Spec> {
    match spec {
        Spec::Wire8(s) => {
            let f: world_wire::Fault = serde_json::from_value(op.clone()).ok()?;
            let mut t = s.clone();
            t.ops = vec![f];
            Some(Spec::Wire8(t))
        }
        _ => None,
    }
}

fn minimise(spec: &Spec, prop: &str, viol: &Violation, concrete: &Option<serde_json::Value>, max_execs: usize) -> (Spec, Violation, usize) {
    let mut execs = 0usize;
    // 0. a violation inside a macro operation: replay the concrete single operation alone
    if let Some(c) = concrete {
        if let Some(cand) = with_single_op(spec, c) {
            let r = exec_noted(&cand, prop);
            execs += 1;
            if same_failure(viol, &r.violation) {
                return (cand, r.violation.unwrap(), execs);
            }
        }
    }
    // 1. truncate after the failing step
    let n = ops_len(spec);
    let mut keep = vec![true; n];
    for k in keep.iter_mut().skip(viol.step + 1) {
        *k = false;
    }
    let mut cur = keep_ops(spec, &keep);
    let mut cur_v;
    {
        let r = exec_noted(&cur, prop);
        execs += 1;
        if !same_failure(viol, &r.violation) {
            return (spec.clone(), viol.clone(), execs);
        }
        cur_v = r.violation.unwrap();
    }
    // 2. ddmin-style chunk deletion
    let mut chunk = (ops_len(&cur) / 2).max(1);
    loop {
        let len = ops_len(&cur);
        let mut changed = false;
        let mut start = 0;
        while start < ops_len(&cur) && execs < max_execs {
            let len_now = ops_len(&cur);
            let end = (start + chunk).min(len_now);
            let keep: Vec<bool> = (0..len_now).map(|i| i < start || i >= end).collect();
            let cand = keep_ops(&cur, &keep);
            let r = exec_noted(&cand, prop);
            execs += 1;
            if same_failure(viol, &r.violation) {
                cur = cand;
                cur_v = r.violation.unwrap();
                changed = true;
            } else {
                start = end;
            }
        }
        let _ = len;
        if execs >= max_execs {
            break;
        }
        if chunk == 1 && !changed {
            break;
        }
        if !changed || chunk > 1 {
            chunk = (chunk / 2).max(1);
        }
    }
    // 3. per-op simplification
    let mut i = 0;
    while i < ops_len(&cur) && execs < max_execs {
        let mut improved = false;
        for cand in simplify_candidates(&cur, i) {
            let r = exec_noted(&cand, prop);
            execs += 1;
            if same_failure(viol, &r.violation) {
                cur = cand;
                cur_v = r.violation.unwrap();
                improved = true;
                break;
            }
            if execs >= max_execs {
                break;
            }
        }
        if !improved {
            i += 1;
        }
    }
    (cur, cur_v, execs)
}

fn arg<'a>(args: &'a [String], name: &str) -> Option<&'a str> {
    args.iter().position(|a| a == name).and_then(|i| args.get(i + 1)).map(|s| s.as_str())
}

fn flag(args: &[String], name: &str) -> bool {
    args.iter().any(|a| a == name)
}

fn harness_error(msg: &str) -> ! {
    eprintln!("HARNESS-ERROR: {}", msg);
    std::process::exit(2);
}

fn main() {
    let args: Vec<String> = std::env::args().collect();
    if args.len() < 2 {
        harness_error("usage: sm9sim selftest|run|gen|replay ...");
    }
    install_quiet_panic_hook();
    match args[1].as_str() {
        "selftest" => match model::selftest() {
            Ok(()) => println!("model selftest ok"),
            Err(e) => harness_error(&format!("model selftest failed: {}", e)),
        },
        "gen" => {
            let world = arg(&args, "--world").unwrap_or("fld");
            let seed: u64 = arg(&args, "--seed").and_then(|s| s.parse().ok()).unwrap_or(20261004);
            let index: u64 = arg(&args, "--index").and_then(|s| s.parse().ok()).unwrap_or(0);
            let ctx = GenCtx { tier_thorough: arg(&args, "--tier") == Some("thorough") };
            match generate(world, seed, index, &ctx) {
                Ok(s) => println!("{}", serde_json::to_string(&s).unwrap()),
                Err(e) => harness_error(&e),
            }
        }
        "run" => cmd_run(&args),
        "replay" => cmd_replay(&args),
        _ => harness_error("unknown command"),
    }
}

fn cmd_run(args: &[String]) {
    let world = arg(args, "--world").unwrap_or_else(|| harness_error("--world"));
    let prop = arg(args, "--prop").unwrap_or_else(|| harness_error("--prop"));
    let seed: u64 = arg(args, "--seed").and_then(|s| s.parse().ok()).unwrap_or(20261004);
    let start: u64 = arg(args, "--start").and_then(|s| s.parse().ok()).unwrap_or(0);
    let count: u64 = arg(args, "--count").and_then(|s| s.parse().ok()).unwrap_or(1);
    let stride: u64 = arg(args, "--stride").and_then(|s| s.parse().ok()).unwrap_or(1);
    let offset: u64 = arg(args, "--offset").and_then(|s| s.parse().ok()).unwrap_or(0);
    let out = arg(args, "--out").unwrap_or_else(|| harness_error("--out"));
    let status = arg(args, "--status");
    if let Some(sf) = status {
        let _ = STATUS_PATH.set(sf.to_string());
    }
    let want_fps = flag(args, "--fps");
    let fps_limit: u64 = arg(args, "--fps-limit").and_then(|s| s.parse().ok()).unwrap_or(u64::MAX);
    let no_min = flag(args, "--no-minimise");
    let max_viol: usize = arg(args, "--max-violations").and_then(|s| s.parse().ok()).unwrap_or(8);
    let ctx = GenCtx { tier_thorough: arg(args, "--tier") == Some("thorough") };
    // runs the driver asked to leave out (they do not terminate; reported separately)
    let skip: BTreeSet<u64> = arg(args, "--skip").map(|s| s.split(',').filter_map(|x| x.parse().ok()).collect()).unwrap_or_default();

    let mut runs = 0u64;
    let mut steps = 0u64;
    let mut counters: BTreeMap<String, u64> = BTreeMap::new();
    let mut reach: BTreeMap<String, u64> = BTreeMap::new();
    let mut fps: Vec<(u64, String)> = Vec::new();
    let mut violations = Vec::new();
    let mut sigs_seen: BTreeSet<String> = BTreeSet::new();
    let mut samples = Vec::new();
    let mut debug_panics = Vec::new();

    let mut i = start;
    while i < start + count {
        if i % stride != offset || skip.contains(&i) {
            i += 1;
            continue;
        }
        if let Some(sf) = status {
            let _ = std::fs::write(sf, format!("{}\n", i));
        }
        let spec = match generate(world, seed, i, &ctx) {
            Ok(s) => s,
            Err(e) => harness_error(&e),
        };
        let r = exec(&spec, prop);
        runs += 1;
        steps += r.steps;
        for (k, v) in &r.counters {
            *counters.entry(k.clone()).or_insert(0) += v;
        }
        for k in &r.reach {
            // number of runs in which the tuple occurred
            if let Some(c) = reach.get_mut(k) {
                *c += 1;
            } else {
                reach.insert(k.clone(), 1);
            }
        }
        if want_fps && i - start < fps_limit {
            fps.push((i, format!("{:016x}", r.fingerprint)));
        }
        for (st, msg) in &r.panics {
            if is_debug_only_panic(msg) && debug_panics.len() < 16 {
                debug_panics.push(json!({"index": i, "step": st, "message": short(msg)}));
            }
        }
        if samples.len() < 3 && ops_len(&spec) <= 12 {
            samples.push(serde_json::to_value(&spec).unwrap());
        }
        if let Some(v) = &r.violation {
            // one report per signature per worker; every violation is still counted
            *counters.entry("violating_runs".into()).or_insert(0) += 1;
            if !sigs_seen.contains(&v.signature) && violations.len() < max_viol {
                sigs_seen.insert(v.signature.clone());
                let (mspec, mv, execs) = if no_min { (spec.clone(), v.clone(), 0) } else { minimise(&spec, prop, v, &r.concrete_op, 400) };
                violations.push(json!({
                    "index": i,
                    "violation": mv,
                    "violation_unminimised": v,
                    "spec": mspec,
                    "spec_unminimised": spec,
                    "minimise_execs": execs,
                }));
            }
        }
        i += 1;
    }
    if samples.is_empty() {
        if let Ok(s) = generate(world, seed, start + offset, &ctx) {
            samples.push(serde_json::to_value(&s).unwrap());
        }
    }
    let outv = json!({
        "world": world, "prop": prop, "seed": seed, "start": start, "count": count,
        "stride": stride, "offset": offset,
        "runs": runs, "steps": steps, "counters": counters, "reach": reach,
        "fingerprints": fps, "violations": violations, "samples": samples,
        "debug_only_panics": debug_panics,
    });
    std::fs::write(out, serde_json::to_string(&outv).unwrap()).unwrap_or_else(|e| harness_error(&format!("write {}: {}", out, e)));
}

fn cmd_replay(args: &[String]) {
    let file = arg(args, "--file").unwrap_or_else(|| harness_error("--file"));
    let text = std::fs::read_to_string(file).unwrap_or_else(|e| harness_error(&format!("read {}: {}", file, e)));
    let v: serde_json::Value = serde_json::from_str(&text).unwrap_or_else(|e| harness_error(&format!("parse {}: {}", file, e)));
    let prop = arg(args, "--prop").map(|s| s.to_string()).or_else(|| v.get("property").and_then(|p| p.as_str()).map(|s| s.to_string())).unwrap_or_else(|| harness_error("no property"));
    let specv = v.get("spec").cloned().unwrap_or_else(|| harness_error("no spec in replay file"));
    let spec: Spec = serde_json::from_value(specv).unwrap_or_else(|e| harness_error(&format!("spec: {}", e)));
    // runs executed earlier by the same worker process (state the library carries across calls)
    if let Some(pre) = v.get("pre_specs").and_then(|p| p.as_array()) {
        for ps in pre {
            if let Ok(s) = serde_json::from_value::<Spec>(ps.clone()) {
                let _ = exec(&s, &prop);
            }
        }
    }
    let r = exec(&spec, &prop);
    let mut out = json!({
        "property": prop,
        "fingerprint": format!("{:016x}", r.fingerprint),
        "steps": r.steps,
        "violation": r.violation,
        "panics": r.panics,
    });
    if flag(args, "--steps") {
        out["step_digests"] = json!(r.step_digests.iter().map(|d| format!("{:016x}", d)).collect::<Vec<_>>());
    }
    println!("{}", serde_json::to_string(&out).unwrap());
}
