//! W-fld: field-value register machine (property C07).
//!
//! A program is a list of public-API calls that produce or combine Fr / Fq / Fq2 values.
//! The model tracks the integer each register denotes. Producers (constructors, byte /
//! string / hash conversions, RNG draws, set_bit, coordinate extraction) must yield a
//! canonical value which the model then adopts; operations must return the value the
//! model predicts.

use crate::common::*;
use crate::model::{self, be32, from_be, hex, unhex};
use crate::rng::{Digest, Prng};
use num_bigint::BigUint;
use num_traits::{One, Zero};
use serde::{Deserialize, Serialize};
use sm9_core::{AffineG1, AffineG2, Fq, Fq2, Fr, Group, G1, G2};
use std::str::FromStr;

#[derive(Clone, Copy, Debug, PartialEq, Eq, Serialize, Deserialize)]
pub enum Fk {
    Fr,
    Fq,
}

#[derive(Clone, Copy, Debug, PartialEq, Eq, Serialize, Deserialize)]
pub enum BinOp {
    Add,
    Sub,
    Mul,
}

/// operator form: value/reference on each side, or compound assignment
#[derive(Clone, Copy, Debug, PartialEq, Eq, Serialize, Deserialize)]
pub enum Form {
    VV,
    RV,
    VR,
    RR,
    AssignV,
    AssignR,
}

pub const FORMS: [Form; 6] = [Form::VV, Form::RV, Form::VR, Form::RR, Form::AssignV, Form::AssignR];

#[derive(Clone, Debug, PartialEq, Eq, Serialize, Deserialize)]
pub enum RngMode {
    /// xoshiro stream from the sub-seed
    Honest,
    Zeros,
    Ones,
    ConstByte(u8),
    ConstWord(u64),
    Counter(u64),
    Cycle(Vec<u64>),
    /// these words first (next_u64 order), then an honest stream
    Words(Vec<u64>),
}

impl RngMode {
    pub fn name(&self) -> &'static str {
        match self {
            RngMode::Honest => "honest",
            RngMode::Zeros => "zeros",
            RngMode::Ones => "ones",
            RngMode::ConstByte(_) => "constbyte",
            RngMode::ConstWord(_) => "constword",
            RngMode::Counter(_) => "counter",
            RngMode::Cycle(_) => "cycle",
            RngMode::Words(_) => "aimed",
        }
    }
}

/// The simulated RNG plugged into `Fr::random` (seam S2).
pub struct SimRng {
    mode: RngMode,
    honest: Prng,
    n: u64,
    pub drawn: Vec<u64>,
}

/// draws allowed within one library call before the call counts as not terminating
pub const RNG_DRAW_LIMIT_WORDS: u64 = 1 << 17;

impl SimRng {
    pub fn new(mode: RngMode, sub: u64) -> Self {
        SimRng { mode, honest: Prng::new(sub), n: 0, drawn: Vec::new() }
    }
    fn word(&mut self) -> u64 {
        let i = self.n;
        self.n += 1;
        // bounded liveness at the RNG seam: a consumer that has drawn 1 MiB within one call (the
        // library needs 64 bytes) is not going to stop - e.g. a rejection loop fed a constant
        // stream. Reported through the same channel as an exhausted tick budget, so that it is a
        // deterministic, minimisable step outcome instead of a wall-clock stall (and so that the
        // record of drawn words stays bounded).
        if i >= RNG_DRAW_LIMIT_WORDS {
            panic!("{}", sm9_core::verif::TICK_PANIC);
        }
        let w = match &self.mode {
            RngMode::Honest => self.honest.next_u64(),
            RngMode::Zeros => 0,
            RngMode::Ones => u64::MAX,
            RngMode::ConstByte(b) => u64::from_ne_bytes([*b; 8]),
            RngMode::ConstWord(w) => *w,
            RngMode::Counter(s) => s.wrapping_add(i),
            RngMode::Cycle(v) => {
                if v.is_empty() {
                    0
                } else {
                    v[(i as usize) % v.len()]
                }
            }
            RngMode::Words(v) => {
                if (i as usize) < v.len() {
                    v[i as usize]
                } else {
                    self.honest.next_u64()
                }
            }
        };
        self.drawn.push(w);
        w
    }
}

impl rand::RngCore for SimRng {
    fn next_u32(&mut self) -> u32 {
        self.word() as u32
    }
    fn next_u64(&mut self) -> u64 {
        self.word()
    }
    fn fill_bytes(&mut self, dest: &mut [u8]) {
        for chunk in dest.chunks_mut(8) {
            let w = self.word().to_le_bytes();
            chunk.copy_from_slice(&w[..chunk.len()]);
        }
    }
    fn try_fill_bytes(&mut self, dest: &mut [u8]) -> Result<(), rand::Error> {
        self.fill_bytes(dest);
        Ok(())
    }
}

#[derive(Clone, Debug, PartialEq, Eq, Serialize, Deserialize)]
#[serde(tag = "op")]
pub enum FOp {
    Const { k: Fk, dst: usize, one: bool },
    FromSlice { k: Fk, dst: usize, bytes: String, via_try: bool },
    Interpret { k: Fk, dst: usize, bytes: String },
    FromStr { k: Fk, dst: usize, s: String },
    FromHash { dst: usize, bytes: String },
    Random { dst: usize, mode: RngMode, sub: u64 },
    SetBit { dst: usize, bit: usize, to: bool },
    Bin { k: Fk, o: BinOp, form: Form, dst: usize, a: usize, b: usize },
    Neg { k: Fk, dst: usize, a: usize, by_ref: bool },
    Pow { k: Fk, dst: usize, a: usize, e: usize },
    Inverse { k: Fk, dst: usize, a: usize },
    Sqrt { dst: usize, a: usize },
    Copy { k: Fk, dst: usize, a: usize },
    Q2New { dst: usize, a: usize, b: usize },
    Q2Const { dst: usize, one: bool },
    Q2FromSlice { dst: usize, bytes: String, via_try: bool },
    Q2Bin { o: BinOp, form: Form, dst: usize, a: usize, b: usize },
    Q2Neg { dst: usize, a: usize, by_ref: bool },
    Q2Sqrt { dst: usize, a: usize },
    Q2Real { dst: usize, a: usize },
    Q2Imag { dst: usize, a: usize },
    /// coordinate of (scalar register s) * generator, optionally normalised first
    G1Coord { dst: usize, s: usize, which: u8, norm: bool },
    G2Coord { dst: usize, s: usize, which: u8, norm: bool },
}

/// suffix of the operation name per coordinate route (see `FOp::G1Coord` in `exec`)
const COORD_ROUTE: [&str; 4] = ["", ".affine", ".via_compressed", ".via_uncompressed"];

impl FOp {
    /// steps that turn outside data (bytes, strings, hashes, RNG output, a bit index) or a
    /// group value into a field element
    pub fn is_producer(&self) -> bool {
        matches!(
            self,
            FOp::FromSlice { .. }
                | FOp::Interpret { .. }
                | FOp::FromStr { .. }
                | FOp::FromHash { .. }
                | FOp::Random { .. }
                | FOp::SetBit { .. }
                | FOp::Q2FromSlice { .. }
                | FOp::G1Coord { .. }
                | FOp::G2Coord { .. }
        )
    }
    pub fn name(&self) -> String {
        match self {
            FOp::Const { k, .. } => format!("{:?}.const", k),
            FOp::FromSlice { k, via_try, .. } => {
                format!("{:?}.{}", k, if *via_try { "try_from" } else { "from_slice" })
            }
            FOp::Interpret { k, .. } => format!("{:?}.interpret", k),
            FOp::FromStr { k, .. } => format!("{:?}.from_str", k),
            FOp::FromHash { .. } => "Fr.from_hash".into(),
            FOp::Random { .. } => "Fr.random".into(),
            FOp::SetBit { .. } => "Fr.set_bit".into(),
            FOp::Bin { k, o, .. } => format!("{:?}.{:?}", k, o).to_lowercase(),
            FOp::Neg { k, .. } => format!("{:?}.neg", k),
            FOp::Pow { k, .. } => format!("{:?}.pow", k),
            FOp::Inverse { k, .. } => format!("{:?}.inverse", k),
            FOp::Sqrt { .. } => "Fq.sqrt".into(),
            FOp::Copy { k, .. } => format!("{:?}.copy", k),
            FOp::Q2New { .. } => "Fq2.new".into(),
            FOp::Q2Const { .. } => "Fq2.const".into(),
            FOp::Q2FromSlice { via_try, .. } => {
                if *via_try { "Fq2.try_from".into() } else { "Fq2.from_slice".into() }
            }
            FOp::Q2Bin { o, .. } => format!("Fq2.{:?}", o).to_lowercase(),
            FOp::Q2Neg { .. } => "Fq2.neg".into(),
            FOp::Q2Sqrt { .. } => "Fq2.sqrt".into(),
            FOp::Q2Real { .. } => "Fq2.real".into(),
            FOp::Q2Imag { .. } => "Fq2.imaginary".into(),
            FOp::G1Coord { which, .. } => format!("G1.coord{}", COORD_ROUTE[(*which as usize / 3) % 4]),
            FOp::G2Coord { which, .. } => format!("G2.coord{}", COORD_ROUTE[(*which as usize / 3) % 4]),
        }
    }
}

#[derive(Clone, Debug, Serialize, Deserialize)]
pub struct FldSpec {
    pub n: usize,
    pub budget: u64,
    pub ops: Vec<FOp>,
}

// ---------------------------------------------------------------------------------------
// library adapters

pub trait LibF: Copy + PartialEq + std::fmt::Debug {
    const NAME: &'static str;
    fn modulus() -> &'static BigUint;
    fn bytes(self) -> [u8; 32];
    fn is_zero_(&self) -> bool;
    fn from_slice_(b: &[u8]) -> Option<Self>;
    fn try_from_(b: &[u8]) -> Option<Self>;
    fn from_str_(s: &str) -> Option<Self>;
    fn interpret_(b: &[u8; 64]) -> Self;
    fn raw(&self) -> [u64; 4];
    fn zero_() -> Self;
    fn one_() -> Self;
    fn pow_(&self, e: Self) -> Self;
    fn inverse_(&self) -> Option<Self>;
    fn bin(a: Self, b: Self, o: BinOp, f: Form) -> Self;
    fn neg_(a: Self, by_ref: bool) -> Self;
}

macro_rules! bin_forms {
    ($a:expr, $b:expr, $o:expr, $f:expr) => {{
        let a = $a;
        let b = $b;
        match ($o, $f) {
            (BinOp::Add, Form::VV) => a + b,
            (BinOp::Add, Form::RV) => &a + b,
            (BinOp::Add, Form::VR) => a + &b,
            (BinOp::Add, Form::RR) => &a + &b,
            (BinOp::Add, Form::AssignV) => {
                let mut t = a;
                t += b;
                t
            }
            (BinOp::Add, Form::AssignR) => {
                let mut t = a;
                t += &b;
                t
            }
            (BinOp::Sub, Form::VV) => a - b,
            (BinOp::Sub, Form::RV) => &a - b,
            (BinOp::Sub, Form::VR) => a - &b,
            (BinOp::Sub, Form::RR) => &a - &b,
            (BinOp::Sub, Form::AssignV) => {
                let mut t = a;
                t -= b;
                t
            }
            (BinOp::Sub, Form::AssignR) => {
                let mut t = a;
                t -= &b;
                t
            }
            (BinOp::Mul, Form::VV) => a * b,
            (BinOp::Mul, Form::RV) => &a * b,
            (BinOp::Mul, Form::VR) => a * &b,
            (BinOp::Mul, Form::RR) => &a * &b,
            (BinOp::Mul, Form::AssignV) => {
                let mut t = a;
                t *= b;
                t
            }
            (BinOp::Mul, Form::AssignR) => {
                let mut t = a;
                t *= &b;
                t
            }
        }
    }};
}

macro_rules! impl_libf {
    ($t:ident, $name:expr, $modfn:path, $raw:path) => {
        impl LibF for $t {
            const NAME: &'static str = $name;
            fn modulus() -> &'static BigUint {
                $modfn()
            }
            fn bytes(self) -> [u8; 32] {
                self.to_slice()
            }
            fn is_zero_(&self) -> bool {
                self.is_zero()
            }
            fn from_slice_(b: &[u8]) -> Option<Self> {
                $t::from_slice(b)
            }
            fn try_from_(b: &[u8]) -> Option<Self> {
                $t::try_from(b).ok()
            }
            fn from_str_(s: &str) -> Option<Self> {
                $t::from_str(s).ok()
            }
            fn interpret_(b: &[u8; 64]) -> Self {
                $t::interpret(b)
            }
            fn raw(&self) -> [u64; 4] {
                $raw(self)
            }
            fn zero_() -> Self {
                $t::zero()
            }
            fn one_() -> Self {
                $t::one()
            }
            fn pow_(&self, e: Self) -> Self {
                self.pow(e)
            }
            fn inverse_(&self) -> Option<Self> {
                self.inverse()
            }
            fn bin(a: Self, b: Self, o: BinOp, f: Form) -> Self {
                bin_forms!(a, b, o, f)
            }
            fn neg_(a: Self, by_ref: bool) -> Self {
                if by_ref {
                    -&a
                } else {
                    -a
                }
            }
        }
    };
}

impl_libf!(Fr, "Fr", model::r, sm9_core::verif::raw_fr);
impl_libf!(Fq, "Fq", model::q, sm9_core::verif::raw_fq);

fn q2_bin(a: Fq2, b: Fq2, o: BinOp, f: Form) -> Fq2 {
    bin_forms!(a, b, o, f)
}

pub fn limbs_to_big(l: &[u64; 4]) -> BigUint {
    let mut v = BigUint::zero();
    for i in (0..4).rev() {
        v = (v << 64) + BigUint::from(l[i]);
    }
    v
}

// ---------------------------------------------------------------------------------------
// value classes for the reach measure

fn mont_r() -> BigUint {
    BigUint::one() << 256
}

pub fn value_class(m: &BigUint, p: &BigUint) -> &'static str {
    if m.is_zero() {
        return "0";
    }
    if m.is_one() {
        return "1";
    }
    let pm1 = p - 1u32;
    if *m == pm1 {
        return "p-1";
    }
    if *m == &pm1 - 1u32 {
        return "p-2";
    }
    if *m == (&pm1 >> 1) {
        return "(p-1)/2";
    }
    if *m == ((p + 1u32) >> 1) {
        return "(p+1)/2";
    }
    if *m == (mont_r() - p) {
        return "2^256-p";
    }
    // Montgomery form limb patterns
    let mf = (m * mont_r()) % p;
    let d = mf.to_u64_digits();
    let mut limbs = [0u64; 4];
    for (i, x) in d.iter().enumerate().take(4) {
        limbs[i] = *x;
    }
    if limbs.iter().any(|&l| l == 0 || l == 1 || l == 1 << 63 || l == u64::MAX) {
        return "mont-limb-boundary";
    }
    if mf >= (p - 256u32) {
        return "mont-near-p";
    }
    "other"
}

#[derive(Clone, Copy, Debug, PartialEq, Eq)]
pub enum Tag {
    Init,
    Bytes,
    Str,
    Hash,
    Random,
    SetBit,
    Arith,
    Sqrt,
    Coord,
}

struct Bank<F: LibF> {
    regs: Vec<(F, BigUint)>,
    tags: Vec<Tag>,
}

impl<F: LibF> Bank<F> {
    fn new(n: usize) -> Self {
        let mut regs = Vec::new();
        for i in 0..n {
            if i % 2 == 0 {
                regs.push((F::zero_(), BigUint::zero()));
            } else {
                regs.push((F::one_(), BigUint::one()));
            }
        }
        Bank { regs, tags: vec![Tag::Init; n] }
    }
}

struct Bank2 {
    regs: Vec<(Fq2, (BigUint, BigUint))>,
}

/// what the monitors found for one written value
type Check = Result<(), (String, String)>; // (invariant, detail)

fn check_fp<F: LibF>(v: F, predicted: Option<&BigUint>) -> Result<BigUint, (String, String)> {
    let p = F::modulus();
    let bytes = v.bytes();
    let iv = from_be(&bytes);
    // I07.5 raw limbs reduced (the anchored state, observed through the hook)
    let raw = limbs_to_big(&v.raw());
    if raw >= *p {
        return Err((
            "I07.5".into(),
            format!("{} stored limbs {:x} >= modulus (to_slice = {})", F::NAME, raw, hex(&bytes)),
        ));
    }
    if iv >= *p {
        return Err(("I07.1".into(), format!("{} encoding {} is not below the modulus", F::NAME, hex(&bytes))));
    }
    if let Some(m) = predicted {
        if iv != *m {
            return Err((
                "I07.2".into(),
                format!("{} result {} but model predicts {}", F::NAME, hex(&bytes), hex(&be32(m))),
            ));
        }
    }
    if v.is_zero_() != iv.is_zero() {
        return Err((
            "I07.3".into(),
            format!("{} is_zero() = {} but encoding is {}", F::NAME, v.is_zero_(), hex(&bytes)),
        ));
    }
    match F::from_slice_(&bytes) {
        Some(t) => {
            if t != v || v != t {
                return Err((
                    "I07.4".into(),
                    format!("{} value with encoding {} != from_slice(its encoding)", F::NAME, hex(&bytes)),
                ));
            }
        }
        None => {
            return Err(("I07.4".into(), format!("{} from_slice(to_slice(v)) is None for {}", F::NAME, hex(&bytes))));
        }
    }
    Ok(iv)
}

fn check_pairs_fp<F: LibF>(bank: &Bank<F>, idx: usize) -> Check {
    let (v, _) = bank.regs[idx];
    let vb = v.bytes();
    for (j, (w, _)) in bank.regs.iter().enumerate() {
        let eq_lib = v == *w;
        let eq_lib2 = *w == v;
        let eq_bytes = vb == w.bytes();
        if eq_lib != eq_bytes || eq_lib2 != eq_bytes {
            return Err((
                "I07.4".into(),
                format!(
                    "{} reg{} == reg{} is {} but encodings {} / {}",
                    F::NAME,
                    idx,
                    j,
                    eq_lib,
                    hex(&vb),
                    hex(&w.bytes())
                ),
            ));
        }
    }
    Ok(())
}

fn check_q2(v: Fq2, predicted: Option<&(BigUint, BigUint)>) -> Result<(BigUint, BigUint), (String, String)> {
    let q = model::q();
    let bytes = v.to_slice();
    let im = from_be(&bytes[..32]);
    let re = from_be(&bytes[32..]);
    let (rr, ri) = sm9_core::verif::raw_fq2(&v);
    if limbs_to_big(&rr) >= *q || limbs_to_big(&ri) >= *q {
        return Err(("I07.5".into(), format!("Fq2 stored limbs not reduced (to_slice = {})", hex(&bytes))));
    }
    if re >= *q || im >= *q {
        return Err(("I07.1".into(), format!("Fq2 encoding {} has a coordinate >= q", hex(&bytes))));
    }
    // accessors agree with the encoding
    if v.real().to_slice()[..] != bytes[32..] || v.imaginary().to_slice()[..] != bytes[..32] {
        return Err(("I07.1".into(), format!("Fq2 real()/imaginary() disagree with to_slice {}", hex(&bytes))));
    }
    if let Some((pr, pi)) = predicted {
        if re != *pr || im != *pi {
            return Err((
                "I07.2".into(),
                format!(
                    "Fq2 result (re {}, im {}) but model predicts (re {}, im {})",
                    hex(&be32(&re)),
                    hex(&be32(&im)),
                    hex(&be32(pr)),
                    hex(&be32(pi))
                ),
            ));
        }
    }
    let z = re.is_zero() && im.is_zero();
    if v.is_zero() != z {
        return Err(("I07.3".into(), format!("Fq2 is_zero() = {} but encoding {}", v.is_zero(), hex(&bytes))));
    }
    match Fq2::from_slice(&bytes) {
        Some(t) => {
            if t != v || v != t {
                return Err(("I07.4".into(), format!("Fq2 value {} != from_slice(its encoding)", hex(&bytes))));
            }
        }
        None => return Err(("I07.4".into(), format!("Fq2 from_slice(to_slice(v)) is None for {}", hex(&bytes)))),
    }
    Ok((re, im))
}

fn check_pairs_q2(bank: &Bank2, idx: usize) -> Check {
    let v = bank.regs[idx].0;
    let vb = v.to_slice();
    for (j, (w, _)) in bank.regs.iter().enumerate() {
        let eq_lib = v == *w;
        let eq_bytes = vb == w.to_slice();
        if eq_lib != eq_bytes {
            return Err(("I07.4".into(), format!("Fq2 reg{} == reg{} is {} but encodings differ/equal otherwise", idx, j, eq_lib)));
        }
    }
    Ok(())
}

// ---------------------------------------------------------------------------------------
// executor

struct St {
    fr: Bank<Fr>,
    fq: Bank<Fq>,
    q2: Bank2,
}

enum Wrote {
    Fr(usize),
    Fq(usize),
    Q2(usize),
    Nothing(&'static str),
}

/// outcome of one step: which register was written, the model prediction (None = producer:
/// adopt), and the tag
struct StepOut {
    wrote: Wrote,
    pred1: Option<BigUint>,
    pred2: Option<(BigUint, BigUint)>,
    tag: Tag,
    /// extra soundness check result computed inside the step (sqrt / inverse rules)
    extra: Check,
}

fn q2m_mul(a: &(BigUint, BigUint), b: &(BigUint, BigUint)) -> (BigUint, BigUint) {
    let q = model::q();
    let a0b0 = (&a.0 * &b.0) % q;
    let a1b1 = (&a.1 * &b.1) % q;
    let c0 = model::msub(&a0b0, &((&a1b1 * 2u32) % q), q);
    let c1 = ((&a.0 * &b.1) + (&a.1 * &b.0)) % q;
    (c0, c1)
}

pub fn exec(spec: &FldSpec, prop: &str) -> RunResult {
    let mut res = RunResult::default();
    let n = spec.n.max(1).min(8);
    let budget = spec.budget;
    let mut st = St {
        fr: Bank::new(n),
        fq: Bank::new(n),
        q2: Bank2 {
            regs: (0..n)
                .map(|i| {
                    if i % 2 == 0 {
                        (Fq2::zero(), (BigUint::zero(), BigUint::zero()))
                    } else {
                        (Fq2::one(), (BigUint::one(), BigUint::zero()))
                    }
                })
                .collect(),
        },
    };
    let mut dg = Digest::new();
    for (step, op) in spec.ops.iter().enumerate() {
        res.steps += 1;
        let opname = op.name();
        // reach tuples come from the model only and are taken before the step runs
        record_reach(&st, op, n, &opname, &mut res);
        let r = guarded(budget, || step_fld(&mut st, op, n));
        let mut viol: Option<(String, String)> = None;
        let outcome: Vec<u8>;
        match r {
            Err(msg) => {
                res.panics.push((step, msg.clone()));
                outcome = msg.clone().into_bytes();
                // C07 speaks about values that were obtained and about operations on them.
                // A conversion that panics instead of producing a value yields no value, so
                // it is recorded as an outcome (C08/C13/C18 territory), not as a C07 violation;
                // a hang, or a panic inside an operation on existing values, is one.
                if op.is_producer() && msg != HANG {
                    res.count("producer_panicked");
                } else {
                    let inv = "I07.6";
                    viol = Some((inv.into(), format!("{} did not return normally: {}", opname, short(&msg))));
                }
            }
            Ok(out) => {
                // monitors (also guarded: a non-canonical value may break an observer)
                let chk = guarded(budget, || monitors(&mut st, &out));
                match chk {
                    Err(msg) => {
                        res.panics.push((step, msg.clone()));
                        outcome = msg.clone().into_bytes();
                        viol = Some((
                            "I07.6".into(),
                            format!("observing the result of {} did not return normally: {}", opname, short(&msg)),
                        ));
                    }
                    Ok((bytes, c)) => {
                        outcome = bytes;
                        if let Err(e) = out.extra {
                            viol = Some(e);
                        } else if let Err(e) = c {
                            viol = Some(e);
                        }
                    }
                }
            }
        }
        dg.u64(step as u64);
        dg.bytes(&outcome);
        res.step_digests.push(dg.0);
        if let Some((inv, detail)) = viol {
            res.violation = Some(Violation {
                property: prop.to_string(),
                invariant: inv.clone(),
                step,
                signature: format!("{}|{}|op={}", prop, inv, opname),
                detail,
            });
            break;
        }
    }
    res.fingerprint = dg.0;
    res
}

fn record_reach(st: &St, op: &FOp, n: usize, opname: &str, res: &mut RunResult) {
    let r = model::r();
    let q = model::q();
    let cls = |k: &Fk, i: usize| -> &'static str {
        match k {
            Fk::Fr => value_class(&st.fr.regs[i % n].1, r),
            Fk::Fq => value_class(&st.fq.regs[i % n].1, q),
        }
    };
    let tagof = |k: &Fk, i: usize| -> Tag {
        match k {
            Fk::Fr => st.fr.tags[i % n],
            Fk::Fq => st.fq.tags[i % n],
        }
    };
    match op {
        FOp::Bin { k, o: BinOp::Mul, a, b, .. } | FOp::Pow { k, a, e: b, .. } if mont_probe(st, k, *a, *b, n, matches!(op, FOp::Pow { .. }), res) => {}
        FOp::Bin { k, form, dst: _, a, b, .. } => {
            res.reach(format!("{}|{}|{}", opname, cls(k, *a), cls(k, *b)));
            res.reach(format!("{}|form={:?}", opname, form));
            for i in [*a, *b] {
                match tagof(k, i) {
                    Tag::SetBit => res.count("operand_from_set_bit"),
                    Tag::Random => res.count("operand_from_random"),
                    Tag::Sqrt => res.count("operand_from_sqrt"),
                    Tag::Coord => res.count("operand_from_coord"),
                    _ => {}
                }
            }
        }
        FOp::Q2Bin { form, a, b, .. } => {
            let c2 = |i: usize| -> &'static str {
                let (re, im) = &st.q2.regs[i % n].1;
                match (re.is_zero(), im.is_zero()) {
                    (true, true) => "0",
                    (false, true) => "real",
                    (true, false) => "imag",
                    _ => {
                        if value_class(re, q) != "other" || value_class(im, q) != "other" {
                            "boundary"
                        } else {
                            "general"
                        }
                    }
                }
            };
            res.reach(format!("{}|{}|{}", opname, c2(*a), c2(*b)));
            res.reach(format!("{}|form={:?}", opname, form));
        }
        FOp::Q2Sqrt { a, .. } | FOp::Q2Neg { a, .. } => {
            let (re, im) = &st.q2.regs[*a % n].1;
            let c = match (re.is_zero(), im.is_zero()) {
                (true, true) => "0",
                (false, true) => "real",
                (true, false) => "imag",
                _ => "general",
            };
            res.reach(format!("{}|{}", opname, c));
        }
        FOp::Neg { k, a, .. } | FOp::Inverse { k, a, .. } => {
            res.reach(format!("{}|{}", opname, cls(k, *a)));
        }
        FOp::Pow { k, a, e, .. } => {
            res.reach(format!("{}|{}|{}", opname, cls(k, *a), cls(k, *e)));
        }
        FOp::Sqrt { a, .. } => {
            res.reach(format!("{}|{}", opname, cls(&Fk::Fq, *a)));
        }
        FOp::SetBit { bit, to, .. } => {
            let b = if *bit >= 256 { "oob".to_string() } else { format!("{}", bit / 32) };
            res.reach(format!("{}|bit/32={}|{}", opname, b, to));
        }
        FOp::Random { mode, .. } => {
            res.reach(format!("{}|{}", opname, mode.name()));
            res.count(&format!("rng_mode_fired:{}", mode.name()));
        }
        FOp::FromSlice { k: _, bytes, .. } => {
            res.reach(format!("{}|len={}", opname, bytes.len() / 2));
        }
        FOp::FromStr { s, .. } => {
            res.reach(format!("{}|len/16={}|digits={}", opname, s.chars().count() / 16, s.chars().all(|c| c.is_ascii_digit())));
        }
        FOp::FromHash { bytes, .. } => {
            res.reach(format!("{}|len={}", opname, bytes.len() / 2));
        }
        FOp::G1Coord { .. } | FOp::G2Coord { .. } => {
            res.reach(opname.to_string());
            res.count(&format!("coord_route:{}", opname));
        }
        _ => {
            res.reach(opname.to_string());
        }
    }
}

/// "this rare condition was hit" probe: quotient digits of the Montgomery reduction of the
/// product about to be computed (model-side; always returns false so the caller falls through)
fn mont_probe(st: &St, k: &Fk, a: usize, b: usize, n: usize, is_pow: bool, res: &mut RunResult) -> bool {
    let p = match k {
        Fk::Fr => model::r(),
        Fk::Fq => model::q(),
    };
    let (va, vb) = match k {
        Fk::Fr => (st.fr.regs[a % n].1.clone(), st.fr.regs[b % n].1.clone()),
        Fk::Fq => (st.fq.regs[a % n].1.clone(), st.fq.regs[b % n].1.clone()),
    };
    let rr = mont_r();
    let (ma, mb) = if is_pow {
        // pow(a, e) with e in {2, 3} squares the base first
        if vb != BigUint::from(2u32) && vb != BigUint::from(3u32) {
            return false;
        }
        let m = (&va * &rr) % p;
        (m.clone(), m)
    } else {
        ((&va * &rr) % p, (&vb * &rr) % p)
    };
    // -p^-1 mod 2^256
    let e = (BigUint::one() << 254) - 1u32;
    let pinv = p.modpow(&e, &rr);
    let ninv = (&rr - pinv) % &rr;
    let m = (((&ma * &mb) % &rr) * ninv) % &rr;
    let mut d = m.to_u64_digits();
    d.resize(4, 0);
    let kind = if is_pow { "square" } else { "mul" };
    for (i, x) in d.iter().enumerate() {
        if i == 0 {
            continue;
        }
        if *x == 0 && !ma.is_zero() && !mb.is_zero() {
            res.count(&format!("probe:mont_{}_zero_digit_row{}", kind, i));
        }
        if *x == u64::MAX {
            res.count(&format!("probe:mont_{}_max_digit_row{}", kind, i));
        }
    }
    false
}

fn monitors(st: &mut St, out: &StepOut) -> (Vec<u8>, Check) {
    match out.wrote {
        Wrote::Nothing(tag) => (tag.as_bytes().to_vec(), Ok(())),
        Wrote::Fr(i) => {
            let v = st.fr.regs[i].0;
            let bytes = v.bytes().to_vec();
            match check_fp(v, out.pred1.as_ref()) {
                Err(e) => (bytes, Err(e)),
                Ok(iv) => {
                    st.fr.regs[i].1 = iv;
                    st.fr.tags[i] = out.tag;
                    let c = check_pairs_fp(&st.fr, i);
                    (bytes, c)
                }
            }
        }
        Wrote::Fq(i) => {
            let v = st.fq.regs[i].0;
            let bytes = v.bytes().to_vec();
            match check_fp(v, out.pred1.as_ref()) {
                Err(e) => (bytes, Err(e)),
                Ok(iv) => {
                    st.fq.regs[i].1 = iv;
                    st.fq.tags[i] = out.tag;
                    let c = check_pairs_fp(&st.fq, i);
                    (bytes, c)
                }
            }
        }
        Wrote::Q2(i) => {
            let v = st.q2.regs[i].0;
            let bytes = v.to_slice().to_vec();
            match check_q2(v, out.pred2.as_ref()) {
                Err(e) => (bytes, Err(e)),
                Ok(iv) => {
                    st.q2.regs[i].1 = iv;
                    let c = check_pairs_q2(&st.q2, i);
                    (bytes, c)
                }
            }
        }
    }
}

fn producer(w: Wrote, tag: Tag) -> StepOut {
    StepOut { wrote: w, pred1: None, pred2: None, tag, extra: Ok(()) }
}

fn step_fld(st: &mut St, op: &FOp, n: usize) -> StepOut {
    let q = model::q();
    macro_rules! bank_op {
        ($k:expr, $body:ident $(, $arg:expr)*) => {
            match $k {
                Fk::Fr => $body::<Fr>(&mut st.fr, Wrote::Fr as fn(usize) -> Wrote $(, $arg)*),
                Fk::Fq => $body::<Fq>(&mut st.fq, Wrote::Fq as fn(usize) -> Wrote $(, $arg)*),
            }
        };
    }
    match op {
        FOp::Const { k, dst, one } => bank_op!(*k, op_const, *dst % n, *one),
        FOp::FromSlice { k, dst, bytes, via_try } => bank_op!(*k, op_from_slice, *dst % n, &unhex(bytes), *via_try),
        FOp::Interpret { k, dst, bytes } => bank_op!(*k, op_interpret, *dst % n, &unhex(bytes)),
        FOp::FromStr { k, dst, s } => bank_op!(*k, op_from_str, *dst % n, s),
        FOp::Copy { k, dst, a } => bank_op!(*k, op_copy, *dst % n, *a % n),
        FOp::Bin { k, o, form, dst, a, b } => bank_op!(*k, op_bin, *dst % n, *a % n, *b % n, *o, *form),
        FOp::Neg { k, dst, a, by_ref } => bank_op!(*k, op_neg, *dst % n, *a % n, *by_ref),
        FOp::Pow { k, dst, a, e } => bank_op!(*k, op_pow, *dst % n, *a % n, *e % n),
        FOp::Inverse { k, dst, a } => bank_op!(*k, op_inverse, *dst % n, *a % n),
        FOp::FromHash { dst, bytes } => {
            let d = *dst % n;
            match Fr::from_hash(&unhex(bytes)) {
                Some(v) => {
                    st.fr.regs[d].0 = v;
                    producer(Wrote::Fr(d), Tag::Hash)
                }
                None => producer(Wrote::Nothing("None"), Tag::Hash),
            }
        }
        FOp::Random { dst, mode, sub } => {
            let d = *dst % n;
            let mut g1 = SimRng::new(mode.clone(), *sub);
            let v1 = Fr::random(&mut g1);
            let mut g2 = SimRng::new(mode.clone(), *sub);
            let v2 = Fr::random(&mut g2);
            st.fr.regs[d].0 = v1;
            let mut out = producer(Wrote::Fr(d), Tag::Random);
            if v1.to_slice() != v2.to_slice() || g1.drawn != g2.drawn {
                out.extra = Err(("I07.2".into(), "Fr::random gave two different results for the same RNG stream".into()));
            }
            out
        }
        FOp::SetBit { dst, bit, to } => {
            let d = *dst % n;
            let mut v = st.fr.regs[d].0;
            v.set_bit(*bit, *to);
            st.fr.regs[d].0 = v;
            producer(Wrote::Fr(d), Tag::SetBit)
        }
        FOp::Sqrt { dst, a } => {
            let d = *dst % n;
            let (av, am) = st.fq.regs[*a % n].clone();
            match av.sqrt() {
                Some(s) => {
                    st.fq.regs[d].0 = s;
                    let mut out = producer(Wrote::Fq(d), Tag::Sqrt);
                    let sv = from_be(&s.to_slice());
                    if (&sv * &sv) % q != am {
                        out.extra = Err((
                            "I07.6".into(),
                            format!("Fq::sqrt({}) returned {} whose square differs", hex(&be32(&am)), hex(&s.to_slice())),
                        ));
                    }
                    out
                }
                None => {
                    let mut out = producer(Wrote::Nothing("None"), Tag::Sqrt);
                    if model::is_square_mod(&am, q) {
                        out.extra = Err(("I07.6".into(), format!("Fq::sqrt({}) = None but the value is a square", hex(&be32(&am)))));
                    }
                    out
                }
            }
        }
        FOp::Q2New { dst, a, b } => {
            let d = *dst % n;
            let (av, am) = st.fq.regs[*a % n].clone();
            let (bv, bm) = st.fq.regs[*b % n].clone();
            st.q2.regs[d].0 = Fq2::new(av, bv);
            StepOut { wrote: Wrote::Q2(d), pred1: None, pred2: Some((am, bm)), tag: Tag::Arith, extra: Ok(()) }
        }
        FOp::Q2Const { dst, one } => {
            let d = *dst % n;
            st.q2.regs[d].0 = if *one { Fq2::one() } else { Fq2::zero() };
            let m = if *one { (BigUint::one(), BigUint::zero()) } else { (BigUint::zero(), BigUint::zero()) };
            StepOut { wrote: Wrote::Q2(d), pred1: None, pred2: Some(m), tag: Tag::Arith, extra: Ok(()) }
        }
        FOp::Q2FromSlice { dst, bytes, via_try } => {
            let d = *dst % n;
            let b = unhex(bytes);
            let v = if *via_try { Fq2::try_from(&b[..]).ok() } else { Fq2::from_slice(&b) };
            match v {
                Some(v) => {
                    st.q2.regs[d].0 = v;
                    producer(Wrote::Q2(d), Tag::Bytes)
                }
                None => producer(Wrote::Nothing("None"), Tag::Bytes),
            }
        }
        FOp::Q2Bin { o, form, dst, a, b } => {
            let d = *dst % n;
            let (av, am) = st.q2.regs[*a % n].clone();
            let (bv, bm) = st.q2.regs[*b % n].clone();
            st.q2.regs[d].0 = q2_bin(av, bv, *o, *form);
            let m = match o {
                BinOp::Add => (model::madd(&am.0, &bm.0, q), model::madd(&am.1, &bm.1, q)),
                BinOp::Sub => (model::msub(&am.0, &bm.0, q), model::msub(&am.1, &bm.1, q)),
                BinOp::Mul => q2m_mul(&am, &bm),
            };
            StepOut { wrote: Wrote::Q2(d), pred1: None, pred2: Some(m), tag: Tag::Arith, extra: Ok(()) }
        }
        FOp::Q2Neg { dst, a, by_ref } => {
            let d = *dst % n;
            let (av, am) = st.q2.regs[*a % n].clone();
            st.q2.regs[d].0 = if *by_ref { -&av } else { -av };
            let m = (model::mneg(&am.0, q), model::mneg(&am.1, q));
            StepOut { wrote: Wrote::Q2(d), pred1: None, pred2: Some(m), tag: Tag::Arith, extra: Ok(()) }
        }
        FOp::Q2Sqrt { dst, a } => {
            let d = *dst % n;
            let (av, am) = st.q2.regs[*a % n].clone();
            let mm = model::Q2::new(am.0.clone(), am.1.clone());
            match av.sqrt() {
                Some(s) => {
                    st.q2.regs[d].0 = s;
                    let mut out = producer(Wrote::Q2(d), Tag::Sqrt);
                    let sb = s.to_slice();
                    let sm = (from_be(&sb[32..]), from_be(&sb[..32]));
                    if q2m_mul(&sm, &sm) != am {
                        out.extra = Err(("I07.6".into(), format!("Fq2::sqrt returned {} whose square is not the operand", hex(&sb))));
                    }
                    out
                }
                None => {
                    let mut out = producer(Wrote::Nothing("None"), Tag::Sqrt);
                    if mm.is_square() {
                        out.extra = Err((
                            "I07.6".into(),
                            format!("Fq2::sqrt(re {}, im {}) = None but the value is a square", hex(&be32(&am.0)), hex(&be32(&am.1))),
                        ));
                    }
                    out
                }
            }
        }
        FOp::Q2Real { dst, a } => {
            let d = *dst % n;
            let (av, am) = st.q2.regs[*a % n].clone();
            st.fq.regs[d].0 = av.real();
            StepOut { wrote: Wrote::Fq(d), pred1: Some(am.0), pred2: None, tag: Tag::Arith, extra: Ok(()) }
        }
        FOp::Q2Imag { dst, a } => {
            let d = *dst % n;
            let (av, am) = st.q2.regs[*a % n].clone();
            st.fq.regs[d].0 = av.imaginary();
            StepOut { wrote: Wrote::Fq(d), pred1: Some(am.1), pred2: None, tag: Tag::Arith, extra: Ok(()) }
        }
        FOp::G1Coord { dst, s, which, norm } => {
            let d = *dst % n;
            let k = st.fr.regs[*s % n].0;
            let mut p = G1::one() * k;
            if *norm {
                p.normalize();
            }
            // which / 3 selects the route by which the coordinate leaves the library: Jacobian
            // accessor, affine accessor (slot 2: the curve constant b), or the accessor of a point
            // that went through the compressed / uncompressed byte formats and back
            let route = if p.is_zero() { 0 } else { (which / 3) % 4 };
            st.fq.regs[d].0 = match route {
                1 => {
                    let a = AffineG1::from_jacobian(p).expect("non-identity has an affine form");
                    match which % 3 {
                        0 => a.x(),
                        1 => a.y(),
                        _ => G1::b(),
                    }
                }
                2 | 3 => {
                    let back = if route == 2 {
                        G1::from_compressed(&p.to_compressed())
                    } else {
                        G1::from_uncompressed(&p.to_uncompressed())
                    }
                    .expect("own encoding decodes");
                    match which % 3 {
                        0 => back.x(),
                        1 => back.y(),
                        _ => back.z(),
                    }
                }
                _ => match which % 3 {
                    0 => p.x(),
                    1 => p.y(),
                    _ => p.z(),
                },
            };
            producer(Wrote::Fq(d), Tag::Coord)
        }
        FOp::G2Coord { dst, s, which, norm } => {
            let d = *dst % n;
            let k = st.fr.regs[*s % n].0;
            let mut p = G2::one() * k;
            if *norm {
                p.normalize();
            }
            let route = if p.is_zero() { 0 } else { (which / 3) % 4 };
            st.q2.regs[d].0 = match route {
                1 => {
                    let a = AffineG2::from_jacobian(p).expect("non-identity has an affine form");
                    match which % 3 {
                        0 => a.x(),
                        1 => a.y(),
                        _ => G2::b(),
                    }
                }
                2 | 3 => {
                    let back = if route == 2 {
                        G2::from_compressed(&p.to_compressed())
                    } else {
                        G2::from_uncompressed(&p.to_uncompressed())
                    }
                    .expect("own encoding decodes");
                    match which % 3 {
                        0 => back.x(),
                        1 => back.y(),
                        _ => back.z(),
                    }
                }
                _ => match which % 3 {
                    0 => p.x(),
                    1 => p.y(),
                    _ => p.z(),
                },
            };
            producer(Wrote::Q2(d), Tag::Coord)
        }
    }
}

fn op_const<F: LibF>(bank: &mut Bank<F>, w: fn(usize) -> Wrote, d: usize, one: bool) -> StepOut {
    bank.regs[d].0 = if one { F::one_() } else { F::zero_() };
    let m = if one { BigUint::one() } else { BigUint::zero() };
    StepOut { wrote: w(d), pred1: Some(m), pred2: None, tag: Tag::Arith, extra: Ok(()) }
}

fn op_from_slice<F: LibF>(bank: &mut Bank<F>, w: fn(usize) -> Wrote, d: usize, b: &[u8], via_try: bool) -> StepOut {
    let v = if via_try { F::try_from_(b) } else { F::from_slice_(b) };
    match v {
        Some(v) => {
            bank.regs[d].0 = v;
            producer(w(d), Tag::Bytes)
        }
        None => producer(Wrote::Nothing("None"), Tag::Bytes),
    }
}

fn op_interpret<F: LibF>(bank: &mut Bank<F>, w: fn(usize) -> Wrote, d: usize, b: &[u8]) -> StepOut {
    let mut buf = [0u8; 64];
    let l = b.len().min(64);
    buf[64 - l..].copy_from_slice(&b[..l]);
    bank.regs[d].0 = F::interpret_(&buf);
    producer(w(d), Tag::Bytes)
}

fn op_from_str<F: LibF>(bank: &mut Bank<F>, w: fn(usize) -> Wrote, d: usize, s: &str) -> StepOut {
    match F::from_str_(s) {
        Some(v) => {
            bank.regs[d].0 = v;
            producer(w(d), Tag::Str)
        }
        None => producer(Wrote::Nothing("None"), Tag::Str),
    }
}

fn op_copy<F: LibF>(bank: &mut Bank<F>, w: fn(usize) -> Wrote, d: usize, a: usize) -> StepOut {
    let (v, m) = bank.regs[a].clone();
    bank.regs[d].0 = v;
    let t = bank.tags[a];
    StepOut { wrote: w(d), pred1: Some(m), pred2: None, tag: t, extra: Ok(()) }
}

fn op_bin<F: LibF>(bank: &mut Bank<F>, w: fn(usize) -> Wrote, d: usize, a: usize, b: usize, o: BinOp, f: Form) -> StepOut {
    let p = F::modulus();
    let (av, am) = bank.regs[a].clone();
    let (bv, bm) = bank.regs[b].clone();
    bank.regs[d].0 = F::bin(av, bv, o, f);
    let m = match o {
        BinOp::Add => model::madd(&am, &bm, p),
        BinOp::Sub => model::msub(&am, &bm, p),
        BinOp::Mul => model::mmul(&am, &bm, p),
    };
    StepOut { wrote: w(d), pred1: Some(m), pred2: None, tag: Tag::Arith, extra: Ok(()) }
}

fn op_neg<F: LibF>(bank: &mut Bank<F>, w: fn(usize) -> Wrote, d: usize, a: usize, by_ref: bool) -> StepOut {
    let p = F::modulus();
    let (av, am) = bank.regs[a].clone();
    bank.regs[d].0 = F::neg_(av, by_ref);
    StepOut { wrote: w(d), pred1: Some(model::mneg(&am, p)), pred2: None, tag: Tag::Arith, extra: Ok(()) }
}

fn op_pow<F: LibF>(bank: &mut Bank<F>, w: fn(usize) -> Wrote, d: usize, a: usize, e: usize) -> StepOut {
    let p = F::modulus();
    let (av, am) = bank.regs[a].clone();
    let (ev, em) = bank.regs[e].clone();
    bank.regs[d].0 = av.pow_(ev);
    StepOut { wrote: w(d), pred1: Some(model::mpow(&am, &em, p)), pred2: None, tag: Tag::Arith, extra: Ok(()) }
}

fn op_inverse<F: LibF>(bank: &mut Bank<F>, w: fn(usize) -> Wrote, d: usize, a: usize) -> StepOut {
    let p = F::modulus();
    let (av, am) = bank.regs[a].clone();
    match av.inverse_() {
        Some(v) => {
            bank.regs[d].0 = v;
            let mut out = StepOut { wrote: w(d), pred1: model::minv(&am, p), pred2: None, tag: Tag::Arith, extra: Ok(()) };
            if am.is_zero() {
                out.extra = Err(("I07.6".into(), format!("{}::inverse of zero returned Some", F::NAME)));
            }
            out
        }
        None => {
            let mut out = producer(Wrote::Nothing("None"), Tag::Arith);
            if !am.is_zero() {
                out.extra = Err(("I07.6".into(), format!("{}::inverse({}) returned None for a non-zero value", F::NAME, hex(&be32(&am)))));
            }
            out
        }
    }
}

// ---------------------------------------------------------------------------------------
// generator

pub fn limb_patterns(pr: &mut Prng, p: &BigUint) -> BigUint {
    // whole-value stored patterns first: (p-1)/2, (p+1)/2, p-1, p-2, 2^255, 2^256-p, 1, 2^192 ...
    if pr.chance(1, 5) {
        let two256 = BigUint::one() << 256;
        return match pr.below(10) {
            0 => (p - 1u32) >> 1,
            1 => (p + 1u32) >> 1,
            2 => p - 1u32,
            3 => p - 2u32,
            4 => BigUint::one() << 255,
            5 => &two256 - p,
            6 => BigUint::one(),
            7 => BigUint::one() << (64 * (1 + pr.below(3)) as u32),
            8 => ((p - 1u32) >> 1) - pr.below(3),
            _ => (&two256 - p) + pr.below(1 << 20),
        };
    }
    let pd = {
        let mut l = [0u64; 4];
        for (i, x) in p.to_u64_digits().iter().enumerate() {
            l[i] = *x;
        }
        l
    };
    let mut limbs = [0u64; 4];
    for i in 0..4 {
        limbs[i] = match pr.below(9) {
            0 => 0,
            1 => 1,
            2 => 1 << 63,
            3 => u64::MAX,
            4 => pd[i],
            5 => pd[i].wrapping_sub(1),
            6 => pd[i].wrapping_add(1),
            7 => u64::MAX - 1,
            _ => pr.next_u64(),
        };
    }
    limbs_to_big(&limbs)
}

/// a 32-byte canonical encoding whose stored Montgomery limbs will be the pattern L (mod p)
fn aimed_bytes(l: &BigUint, p: &BigUint) -> Vec<u8> {
    let rinv = model::minv(&(mont_r() % p), p).unwrap();
    let a = ((l % p) * rinv) % p;
    be32(&a).to_vec()
}

/// Operands (as canonical byte strings) whose Montgomery product a*b has the chosen quotient
/// digits in its reduction: with T = A*B (A, B the stored limbs), the digits are those of
/// T * (-p^-1) mod 2^256, so pick the digits k, set T = -k*p mod 2^256, pick A odd and solve
/// B = T * A^-1 mod 2^256 (retry until B < p).
fn aimed_mul_pair(pr: &mut Prng, p: &BigUint) -> Option<(Vec<u8>, Vec<u8>)> {
    let rr = mont_r();
    let mut k = BigUint::zero();
    for _ in 0..4 {
        let d = match pr.below(7) {
            0 | 1 | 2 => 0u64,
            3 => u64::MAX,
            4 => 1,
            _ => pr.next_u64(),
        };
        k = (k << 64) + BigUint::from(d);
    }
    let t0 = (&rr - ((&k * p) % &rr)) % &rr;
    // exponent of the unit group of Z/2^256 is 2^254: a^(2^254 - 1) = a^-1 for odd a
    let e = (BigUint::one() << 254) - 1u32;
    for _ in 0..12 {
        let mut a = from_be(&pr.bytes(32)) % p;
        if !a.bit(0) {
            a += 1u32;
        }
        if a >= *p {
            continue;
        }
        let ainv = a.modpow(&e, &rr);
        let b = (&t0 * &ainv) % &rr;
        if b >= *p || b.is_zero() {
            continue;
        }
        debug_assert_eq!((&a * &b) % &rr, t0);
        return Some((aimed_bytes(&a, p), aimed_bytes(&b, p)));
    }
    None
}

/// An operand A (canonical bytes) whose Montgomery *square* has chosen quotient digits:
/// solve A^2 = -k*p mod 2^256 by Hensel lifting (needs the right side = 1 mod 8, arranged
/// through the lowest digit of k).
fn aimed_square(pr: &mut Prng, p: &BigUint) -> Option<Vec<u8>> {
    let rr = mont_r();
    for _ in 0..16 {
        let mut k = BigUint::zero();
        for _ in 0..4 {
            let d = match pr.below(7) {
                0 | 1 | 2 => 0u64,
                3 => u64::MAX,
                4 => 1,
                _ => pr.next_u64(),
            };
            k = (k << 64) + BigUint::from(d);
        }
        // adjust the three lowest bits of k so that t0 = -k*p = 1 (mod 8)
        let mut t0 = BigUint::zero();
        let mut okk = false;
        for adj in 0u32..8 {
            let kk = ((&k >> 3) << 3) + adj;
            t0 = (&rr - ((&kk * p) % &rr)) % &rr;
            if (&t0 % 8u32) == BigUint::one() {
                okk = true;
                break;
            }
        }
        if !okk {
            continue;
        }
        // lift x with x^2 = t0 (mod 2^j), starting from j = 3
        let mut x = BigUint::one();
        for j in 3..256u32 {
            let m = BigUint::one() << (j + 1);
            if ((&x * &x) % &m) != (&t0 % &m) {
                x += BigUint::one() << (j - 1);
            }
        }
        let x = x % &rr;
        // four roots: +-x, +-x + 2^255; take one below p
        let cands = [x.clone(), (&rr - &x) % &rr, (&x + (BigUint::one() << 255)) % &rr, (&rr - &x + (BigUint::one() << 255)) % &rr];
        let start = pr.usize_below(4);
        for i in 0..4 {
            let c = &cands[(start + i) % 4];
            if c < p && !c.is_zero() && ((c * c) % &rr) == t0 {
                return Some(aimed_bytes(c, p));
            }
        }
    }
    None
}

fn set_bits_of(p: &BigUint) -> Vec<usize> {
    (0..256).filter(|&i| p.bit(i as u64)).collect()
}

fn boundary_value(pr: &mut Prng, p: &BigUint) -> BigUint {
    let two256 = mont_r();
    match pr.below(16) {
        0 => BigUint::zero(),
        1 => BigUint::one(),
        2 => p - 1u32,
        3 => p.clone(),
        4 => p + 1u32,
        5 => &two256 - 1u32,
        6 => two256.clone(),
        7 => (p - 1u32) >> 1,
        8 => (p + 1u32) >> 1,
        9 => &two256 - p,
        10 => p * pr.below(5),
        11 => (p * pr.below(1 << 20)) + pr.below(3),
        12 => BigUint::one() << (pr.below(256) as u32),
        13 => p - (BigUint::one() << (pr.below(200) as u32)),
        14 => from_be(&pr.bytes(32)) % p,
        _ => from_be(&pr.bytes(32)),
    }
}

/// up to 512-bit values built limb by limb from {0, 1, 2^63, 2^64-1, random}: the
/// limb-boundary class for the 33..64-byte conversion paths (long division, U512 carries)
pub fn limb_sparse(pr: &mut Prng, limbs: usize) -> BigUint {
    // a quarter of the draws also mix in limbs of the two moduli (and +-1): remainders and
    // partial quotients of the long division then tie with the modulus limb by limb
    let with_mod = pr.chance(1, 4);
    let md: Vec<u64> = if with_mod {
        let p = if pr.chance(1, 2) { model::r() } else { model::q() };
        let mut d = p.to_u64_digits();
        d.resize(4, 0);
        d
    } else {
        Vec::new()
    };
    let mut v = BigUint::zero();
    for _ in 0..limbs {
        let l = match pr.below(if with_mod { 11 } else { 8 }) {
            0 | 1 | 2 => 0u64,
            3 => 1,
            4 => u64::MAX,
            5 => 1 << 63,
            6 => u64::MAX - 1,
            7 => pr.next_u64(),
            8 => md[pr.usize_below(4)],
            9 => md[pr.usize_below(4)].wrapping_sub(1),
            _ => md[3],
        };
        v = (v << 64) + BigUint::from(l);
    }
    v
}

/// A dividend aimed at the long division's intermediate state: D = (M*p + R) * 2^(64 j) + low with
/// a chosen partial quotient M and a chosen running remainder R < p (limb patterns, or top limb tied
/// with the modulus's and small lower limbs), so that after the top limbs have been divided the
/// remainder in flight is exactly R.
pub fn division_aimed(pr: &mut Prng, p: &BigUint) -> BigUint {
    let j = pr.below(4) as u32;
    let mut pd = p.to_u64_digits();
    pd.resize(4, 0);
    let r = match pr.below(4) {
        0 => limb_patterns(pr, p) % p,
        1 | 2 => {
            // top limb tied with the modulus, next limb small or zero, rest random
            let l2 = match pr.below(3) {
                0 => 0u64,
                1 => pr.next_u64() >> (1 + pr.below(40) as u32),
                _ => pd[2].wrapping_sub(1 + pr.below(1 << 30)),
            };
            let v = limbs_to_big(&[pr.next_u64(), pr.next_u64(), l2, pd[3]]);
            v % p
        }
        _ => p - 1u32 - limb_sparse(pr, 2),
    };
    let mbits = 512 - 256 - 64 * j;
    let m = match pr.below(3) {
        0 => limb_sparse(pr, (mbits / 64) as usize),
        _ => from_be(&pr.bytes((mbits / 8) as usize)),
    } % (BigUint::one() << mbits);
    let low = if j == 0 { BigUint::zero() } else { from_be(&pr.bytes((8 * j) as usize)) };
    (((m * p) + r) << (64 * j)) + low
}

fn gen_bytes(pr: &mut Prng, p: &BigUint, len: usize) -> Vec<u8> {
    let two512 = BigUint::one() << 512;
    if len > 32 && pr.chance(1, 6) {
        let v: BigUint = division_aimed(pr, p) % &two512;
        let full = v.to_bytes_be();
        let mut out = vec![0u8; len];
        if full.len() >= len {
            out.copy_from_slice(&full[full.len() - len..]);
        } else {
            out[len - full.len()..].copy_from_slice(&full);
        }
        return out;
    }
    let v: BigUint = match pr.below(15) {
        12 | 13 => limb_sparse(pr, (len + 7) / 8),
        14 => {
            // a power of two anywhere in the 512-bit range, +- a small amount
            let e = pr.below(512) as u32;
            let d = pr.below(3);
            if pr.chance(1, 2) { (BigUint::one() << e) + d } else { (BigUint::one() << e) - d.min(1) }
        }
        0 => BigUint::zero(),
        1 => return vec![0xFF; len],
        2 | 3 | 4 => boundary_value(pr, p),
        5 => {
            // largest multiple of p (or of p-1) below 2^512, +- small
            let m = if pr.chance(1, 2) { p.clone() } else { p - 1u32 };
            let k = &two512 / &m;
            let base = &k * &m;
            let d = pr.below(3);
            if pr.chance(1, 2) { base + d } else { base - d }
        }
        6 => (p * from_be(&pr.bytes(32))) + pr.below(2),
        7 => &two512 - 1u32 - pr.below(3),
        8 => {
            if len == 32 {
                return aimed_bytes(&limb_patterns(pr, p), p);
            }
            from_be(&pr.bytes(len))
        }
        _ => from_be(&pr.bytes(len)),
    };
    // fit into len bytes (truncate high part if needed)
    let full = v.to_bytes_be();
    let full = if v.is_zero() { vec![] } else { full };
    let mut out = vec![0u8; len];
    if full.len() >= len {
        out.copy_from_slice(&full[full.len() - len..]);
    } else {
        out[len - full.len()..].copy_from_slice(&full);
    }
    out
}

fn gen_len(pr: &mut Prng) -> usize {
    match pr.below(10) {
        0 | 1 | 2 => 32,
        3 => 64,
        4 => *pr.pick(&[0usize, 1, 31, 33, 63, 65, 70]),
        5 => 40,
        _ => pr.usize_below(71),
    }
}

fn gen_str(pr: &mut Prng, p: &BigUint) -> String {
    let mut s = match pr.below(8) {
        0 => String::new(),
        1 => boundary_value(pr, p).to_string(),
        2 => {
            let n = 1 + pr.usize_below(160);
            (0..n).map(|_| (b'0' + pr.below(10) as u8) as char).collect()
        }
        3 => format!("1{}", "0".repeat(pr.usize_below(159))),
        4 => "9".repeat(1 + pr.usize_below(160)),
        5 => format!("{}{}", "0".repeat(pr.usize_below(100)), boundary_value(pr, p)),
        _ => {
            let l = 1 + pr.usize_below(48);
            from_be(&pr.bytes(l)).to_string()
        }
    };
    if pr.chance(1, 5) {
        let bad = *pr.pick(&['a', '-', '+', ' ', '.', 'x', '\u{0663}', '\u{FF11}', '\n']);
        let pos = pr.usize_below(s.chars().count() + 1);
        let mut t: Vec<char> = s.chars().collect();
        t.insert(pos, bad);
        s = t.into_iter().collect();
    }
    s
}

fn words_of(v: &BigUint) -> Vec<u64> {
    // ark-ff fills limb 0 first: the first word drawn is the least significant
    let mut d = v.to_u64_digits();
    d.resize(8, 0);
    d
}

fn gen_rng_mode(pr: &mut Prng) -> RngMode {
    let r = model::r();
    let q = model::q();
    let two512 = BigUint::one() << 512;
    match pr.below(14) {
        0 | 1 | 2 => RngMode::Honest,
        3 => RngMode::Zeros,
        4 => RngMode::Ones,
        5 => RngMode::ConstByte(pr.next_u64() as u8),
        6 => RngMode::ConstWord(pr.next_u64()),
        7 => RngMode::Counter(*pr.pick(&[0u64, 1, u64::MAX - 3, 1 << 63])),
        8 => RngMode::Cycle(vec![pr.next_u64(), pr.next_u64()]),
        9 => RngMode::Cycle(vec![0, u64::MAX, pr.next_u64()]),
        _ => {
            let p = if pr.chance(3, 4) { r } else { q };
            let v = match pr.below(10) {
                0 => p - 1u32,
                1 => p.clone(),
                2 => p + 1u32,
                3 => p * 2u32,
                4 => (&two512 / p) * p,
                5 => (&two512 / p) * p - 1u32,
                6 => &two512 - 1u32,
                7 => (BigUint::one() << 256) - 1u32,
                8 => BigUint::one() << 256,
                _ => match pr.below(3) {
                    0 => limb_sparse(pr, 8),
                    1 => division_aimed(pr, p),
                    _ => (p * from_be(&pr.bytes(31))) + pr.below(2),
                },
            };
            RngMode::Words(words_of(&(v % &two512)))
        }
    }
}

const CLASSES: usize = 10;

pub fn generate(seed: u64) -> FldSpec {
    let mut cfg = Prng::split(seed, "cfg");
    let mut pr = Prng::split(seed, "prog");
    let n = 2 + cfg.usize_below(5);
    let len = cfg.length(8, 60);
    // swarm: random subset of op classes, arithmetic always present
    let mut enabled = [false; CLASSES];
    for e in enabled.iter_mut() {
        *e = cfg.chance(3, 4);
    }
    enabled[5] = true;
    let weights: [u64; CLASSES] = [4, 2, 1, 2, 3, 8, 2, 2, 4, 1];
    // 0 bytes, 1 str, 2 hash, 3 random, 4 setbit, 5 arith, 6 pow/inv, 7 sqrt, 8 fq2, 9 coords
    let total: u64 = (0..CLASSES).filter(|&i| enabled[i]).map(|i| weights[i]).sum();
    let r = model::r();
    let q = model::q();
    let mut ops = Vec::new();
    while ops.len() < len {
        let mut x = pr.below(total);
        let mut class = 0;
        for i in 0..CLASSES {
            if !enabled[i] {
                continue;
            }
            if x < weights[i] {
                class = i;
                break;
            }
            x -= weights[i];
        }
        let k = if pr.chance(1, 2) { Fk::Fr } else { Fk::Fq };
        let p = if k == Fk::Fr { r } else { q };
        let dst = pr.usize_below(n);
        let a = pr.usize_below(n);
        let b = pr.usize_below(n);
        match class {
            0 => {
                let l = gen_len(&mut pr);
                let bytes = hex(&gen_bytes(&mut pr, p, l));
                match pr.below(8) {
                    0 => ops.push(FOp::Interpret { k, dst, bytes: hex(&gen_bytes(&mut pr, p, 64)) }),
                    1 => ops.push(FOp::Const { k, dst, one: pr.chance(1, 2) }),
                    _ => ops.push(FOp::FromSlice { k, dst, bytes, via_try: pr.chance(1, 4) }),
                }
            }
            1 => ops.push(FOp::FromStr { k, dst, s: gen_str(&mut pr, p) }),
            2 => {
                let l = match pr.below(4) {
                    0 => 40,
                    1 => 32,
                    _ => pr.usize_below(71),
                };
                // from_hash reduces modulo r-1: aim at multiples of r-1
                let rm1 = r - 1u32;
                let bytes = if pr.chance(1, 2) { gen_bytes(&mut pr, &rm1, l) } else { gen_bytes(&mut pr, r, l) };
                ops.push(FOp::FromHash { dst, bytes: hex(&bytes) });
            }
            3 => ops.push(FOp::Random { dst, mode: gen_rng_mode(&mut pr), sub: pr.next_u64() }),
            4 => {
                if pr.chance(1, 3) {
                    // aimed: stored limbs r - 2^i (bit i of r set), then set bit i
                    let bits = set_bits_of(r);
                    let i = *pr.pick(&bits);
                    let l = r - (BigUint::one() << (i as u32));
                    ops.push(FOp::FromSlice { k: Fk::Fr, dst, bytes: hex(&aimed_bytes(&l, r)), via_try: false });
                    ops.push(FOp::SetBit { dst, bit: i, to: true });
                } else if pr.chance(1, 3) {
                    // aimed at the canonical value: r - 2^i then set bit i of the value
                    let bits = set_bits_of(r);
                    let i = *pr.pick(&bits);
                    let v = r - (BigUint::one() << (i as u32));
                    ops.push(FOp::FromSlice { k: Fk::Fr, dst, bytes: hex(&be32(&v)), via_try: false });
                    ops.push(FOp::SetBit { dst, bit: i, to: true });
                } else {
                    let bit = match pr.below(6) {
                        0 => pr.usize_below(8),
                        1 => 248 + pr.usize_below(8),
                        2 => 256 + pr.usize_below(45),
                        3 => *pr.pick(&[63usize, 64, 127, 128, 191, 192, 255, 256, 300]),
                        _ => pr.usize_below(301),
                    };
                    ops.push(FOp::SetBit { dst, bit, to: pr.chance(2, 3) });
                }
            }
            5 => match pr.below(13) {
                10 | 11 => {
                    // aimed at the Montgomery multiplier's hidden state: operands whose product has
                    // chosen quotient digits (0, 1, 2^64-1, ...) in the reduction rows
                    if let Some((ba, bb)) = aimed_mul_pair(&mut pr, p) {
                        let (ra, rb) = (a, (a + 1) % n);
                        ops.push(FOp::FromSlice { k, dst: ra, bytes: hex(&ba), via_try: false });
                        ops.push(FOp::FromSlice { k, dst: rb, bytes: hex(&bb), via_try: false });
                        let form = *pr.pick(&FORMS);
                        ops.push(FOp::Bin { k, o: BinOp::Mul, form, dst, a: ra, b: rb });
                        if pr.chance(1, 3) {
                            ops.push(FOp::Bin { k, o: BinOp::Mul, form, dst: b, a: rb, b: ra });
                        }
                    }
                }
                6 => {
                    // the same stored limbs in both fields, then the same operation in each (a
                    // cache or table shared between Fr and Fq and keyed by the limbs alone)
                    let l = limb_patterns(&mut pr, q) % r;
                    ops.push(FOp::FromSlice { k: Fk::Fr, dst, bytes: hex(&aimed_bytes(&l, r)), via_try: false });
                    ops.push(FOp::FromSlice { k: Fk::Fq, dst, bytes: hex(&aimed_bytes(&l, q)), via_try: false });
                    let (k1, k2) = if pr.chance(1, 2) { (Fk::Fr, Fk::Fq) } else { (Fk::Fq, Fk::Fr) };
                    match pr.below(3) {
                        0 => {
                            ops.push(FOp::Inverse { k: k1, dst: a, a: dst });
                            ops.push(FOp::Inverse { k: k2, dst: a, a: dst });
                        }
                        1 => {
                            ops.push(FOp::Bin { k: k1, o: BinOp::Mul, form: Form::VV, dst: a, a: dst, b: dst });
                            ops.push(FOp::Bin { k: k2, o: BinOp::Mul, form: Form::VV, dst: a, a: dst, b: dst });
                        }
                        _ => {
                            ops.push(FOp::Neg { k: k1, dst: a, a: dst, by_ref: false });
                            ops.push(FOp::Neg { k: k2, dst: a, a: dst, by_ref: false });
                        }
                    }
                }
                7 => {
                    // aimed at the OUTPUT: choose the stored limbs W the result should have (just
                    // above R mod p = results that wrapped past 2^256, small sparse limbs = results
                    // that needed the final subtraction, just below p, limb patterns), then solve
                    // for operands: x = sqrt(w) for the squaring path, b = w/a, b = w - a, b = a - w
                    let two256 = mont_r();
                    let wl = match pr.below(6) {
                        0 | 1 => ((&two256 - p) + limb_sparse(&mut pr, 3)) % p,
                        2 => limb_sparse(&mut pr, 3) % p,
                        3 => (p - 1u32 - limb_sparse(&mut pr, 2)) % p,
                        _ => limb_patterns(&mut pr, p) % p,
                    };
                    let rinv = model::minv(&(&two256 % p), p).unwrap();
                    let w = (&wl * &rinv) % p;
                    let (ra, rb) = (a, (a + 1) % n);
                    match pr.below(5) {
                        0 | 1 => {
                            // squaring path (pow 2 / pow 3) and the plain product
                            if let Some(x) = model::msqrt(&w, p) {
                                let x = if pr.chance(1, 2) { x } else { model::mneg(&x, p) };
                                ops.push(FOp::FromSlice { k, dst: ra, bytes: hex(&be32(&x)), via_try: false });
                                ops.push(FOp::FromSlice { k, dst: rb, bytes: hex(&be32(&BigUint::from(2u32))), via_try: false });
                                ops.push(FOp::Pow { k, dst, a: ra, e: rb });
                                ops.push(FOp::Bin { k, o: BinOp::Mul, form: Form::VV, dst: b, a: ra, b: ra });
                                if k == Fk::Fq {
                                    ops.push(FOp::Sqrt { dst: rb, a: dst });
                                }
                            }
                        }
                        2 => {
                            let av = (from_be(&pr.bytes(32)) % (p - 1u32)) + 1u32;
                            let bv = (&w * model::minv(&av, p).unwrap()) % p;
                            ops.push(FOp::FromSlice { k, dst: ra, bytes: hex(&be32(&av)), via_try: false });
                            ops.push(FOp::FromSlice { k, dst: rb, bytes: hex(&be32(&bv)), via_try: false });
                            ops.push(FOp::Bin { k, o: BinOp::Mul, form: *pr.pick(&FORMS), dst, a: ra, b: rb });
                        }
                        3 => {
                            let av = from_be(&pr.bytes(32)) % p;
                            let bv = model::msub(&w, &av, p);
                            ops.push(FOp::FromSlice { k, dst: ra, bytes: hex(&be32(&av)), via_try: false });
                            ops.push(FOp::FromSlice { k, dst: rb, bytes: hex(&be32(&bv)), via_try: false });
                            ops.push(FOp::Bin { k, o: BinOp::Add, form: *pr.pick(&FORMS), dst, a: ra, b: rb });
                        }
                        _ => {
                            let av = from_be(&pr.bytes(32)) % p;
                            let bv = model::msub(&av, &w, p);
                            ops.push(FOp::FromSlice { k, dst: ra, bytes: hex(&be32(&av)), via_try: false });
                            ops.push(FOp::FromSlice { k, dst: rb, bytes: hex(&be32(&bv)), via_try: false });
                            ops.push(FOp::Bin { k, o: BinOp::Sub, form: *pr.pick(&FORMS), dst, a: ra, b: rb });
                        }
                    }
                }
                8 => {
                    // a value with a boundary stored pattern run through the unary operations
                    // (inverse, sqrt and its internal doubling/halving, neg, pow 2, Fq2 sqrt); the
                    // pattern is imposed on the value itself or on a simple function of it that
                    // the library computes internally (2a, a/2, -a, 3a: linear in the stored form)
                    let x = limb_patterns(&mut pr, p) % p;
                    let inv2 = (p + 1u32) >> 1;
                    let l = match pr.below(6) {
                        0 => (&x * &inv2) % p,                                  // 2a = X
                        1 => (&x * 2u32) % p,                                   // a/2 = X
                        2 => model::mneg(&x, p),                                // -a = X
                        3 => (&x * model::minv(&BigUint::from(3u32), p).unwrap()) % p, // 3a = X
                        _ => x,
                    };
                    ops.push(FOp::FromSlice { k, dst, bytes: hex(&aimed_bytes(&l, p)), via_try: false });
                    match pr.below(5) {
                        0 | 1 => ops.push(FOp::Inverse { k, dst: a, a: dst }),
                        2 => ops.push(FOp::Neg { k, dst: a, a: dst, by_ref: pr.chance(1, 2) }),
                        3 => {
                            if k == Fk::Fq {
                                ops.push(FOp::Sqrt { dst: a, a: dst });
                            } else {
                                ops.push(FOp::Inverse { k, dst: a, a: dst });
                            }
                        }
                        _ => {
                            if k == Fk::Fq {
                                ops.push(FOp::Q2New { dst: a, a: dst, b: dst });
                                ops.push(FOp::Q2Sqrt { dst: b, a });
                                ops.push(FOp::Q2Bin { o: BinOp::Mul, form: Form::VV, dst: b, a, b: a });
                            } else {
                                ops.push(FOp::Bin { k, o: BinOp::Add, form: Form::VV, dst: a, a: dst, b: dst });
                            }
                        }
                    }
                }
                9 => {
                    // aimed at the dedicated squaring routine (reached through pow): a base whose
                    // Montgomery square has chosen quotient digits, raised to 2 (and to 3)
                    if let Some(ba) = aimed_square(&mut pr, p) {
                        let (ra, re) = (a, (a + 1) % n);
                        ops.push(FOp::FromSlice { k, dst: ra, bytes: hex(&ba), via_try: false });
                        let two = if pr.chance(1, 3) { 3u32 } else { 2u32 };
                        ops.push(FOp::FromSlice { k, dst: re, bytes: hex(&be32(&BigUint::from(two))), via_try: false });
                        ops.push(FOp::Pow { k, dst, a: ra, e: re });
                    }
                }
                12 => {
                    // two values whose stored limbs differ in exactly one limb (or one bit): the
                    // pairwise == monitor then compares them ("equality is value equality")
                    let l = limb_patterns(&mut pr, p) % p;
                    let j = pr.below(4) as u32;
                    let j2 = (j + 1 + pr.below(3) as u32) % 4;
                    let l2 = match pr.below(5) {
                        0 => &l ^ (BigUint::one() << (64 * j + pr.below(64) as u32)),
                        1 => &l ^ (BigUint::from(u64::MAX) << (64 * j)),
                        2 => &l ^ (BigUint::from(pr.next_u64() | 1) << (64 * j)),
                        3 => {
                            // the same bit flipped in two different limbs (differences that cancel
                            // under xor-folding or sum to zero under wrapping addition)
                            let bit = pr.below(64) as u32;
                            &l ^ (BigUint::one() << (64 * j + bit)) ^ (BigUint::one() << (64 * j2 + bit))
                        }
                        _ => {
                            let d = pr.next_u64() | 1;
                            &l ^ (BigUint::from(d) << (64 * j)) ^ (BigUint::from(d) << (64 * j2))
                        }
                    } % p;
                    let (ra, rb) = (dst, (dst + 1) % n);
                    ops.push(FOp::FromSlice { k, dst: ra, bytes: hex(&aimed_bytes(&l, p)), via_try: false });
                    ops.push(FOp::FromSlice { k, dst: rb, bytes: hex(&aimed_bytes(&l2, p)), via_try: false });
                    ops.push(FOp::Bin { k, o: BinOp::Sub, form: Form::VV, dst: a, a: ra, b: rb });
                }
                0 => ops.push(FOp::Neg { k, dst, a, by_ref: pr.chance(1, 2) }),
                1 => ops.push(FOp::Copy { k, dst, a }),
                _ => {
                    let o = *pr.pick(&[BinOp::Add, BinOp::Sub, BinOp::Mul]);
                    let form = *pr.pick(&FORMS);
                    ops.push(FOp::Bin { k, o, form, dst, a, b });
                }
            },
            6 => {
                if pr.chance(1, 2) {
                    ops.push(FOp::Inverse { k, dst, a });
                } else {
                    ops.push(FOp::Pow { k, dst, a, e: b });
                }
            }
            7 => ops.push(FOp::Sqrt { dst, a }),
            8 => match pr.below(12) {
                10 | 11 => {
                    // aimed at the lazy-reduction multiplier: both operands get components whose
                    // stored Montgomery limbs lie just below q (or at other limb patterns), so the
                    // interleaved sum of products accumulates its maximal carries
                    let near = |pr: &mut Prng| -> Vec<u8> {
                        let l = match pr.below(6) {
                            0 => limb_patterns(pr, q),
                            1 => q - 1u32 - pr.below(4),
                            _ => q - 1u32 - (from_be(&pr.bytes(31)) >> (pr.below(24) as u32)),
                        };
                        aimed_bytes(&l, q)
                    };
                    let regs: Vec<usize> = (0..4).map(|i| (a + i) % n).collect();
                    for &rg in regs.iter() {
                        ops.push(FOp::FromSlice { k: Fk::Fq, dst: rg, bytes: hex(&near(&mut pr)), via_try: false });
                    }
                    let (d0, d1) = (dst, (dst + 1) % n);
                    ops.push(FOp::Q2New { dst: d0, a: regs[0], b: regs[1] });
                    ops.push(FOp::Q2New { dst: d1, a: regs[2], b: regs[3] });
                    let form = *pr.pick(&FORMS);
                    ops.push(FOp::Q2Bin { o: BinOp::Mul, form, dst: b, a: d0, b: d1 });
                    if pr.chance(1, 2) {
                        ops.push(FOp::Q2Bin { o: BinOp::Mul, form, dst: b, a: d0, b: d0 });
                    }
                }
                0 => ops.push(FOp::Q2New { dst, a, b }),
                1 => ops.push(FOp::Q2Const { dst, one: pr.chance(1, 2) }),
                2 => {
                    let l = if pr.chance(3, 4) { 64 } else { gen_len(&mut pr) * 2 };
                    let mut bytes = gen_bytes(&mut pr, q, l / 2);
                    bytes.extend_from_slice(&gen_bytes(&mut pr, q, l - l / 2));
                    ops.push(FOp::Q2FromSlice { dst, bytes: hex(&bytes), via_try: pr.chance(1, 4) });
                }
                3 => ops.push(FOp::Q2Neg { dst, a, by_ref: pr.chance(1, 2) }),
                4 => ops.push(FOp::Q2Sqrt { dst, a }),
                5 => ops.push(FOp::Q2Real { dst, a }),
                6 => ops.push(FOp::Q2Imag { dst, a }),
                _ => {
                    let o = *pr.pick(&[BinOp::Add, BinOp::Sub, BinOp::Mul]);
                    let form = *pr.pick(&FORMS);
                    ops.push(FOp::Q2Bin { o, form, dst, a, b });
                }
            },
            _ => {
                let which = pr.below(3) as u8 + 3 * pr.below(4) as u8;
                let norm = pr.chance(1, 2);
                if pr.chance(1, 2) {
                    ops.push(FOp::G1Coord { dst, s: a, which, norm });
                } else {
                    ops.push(FOp::G2Coord { dst, s: a, which, norm });
                }
            }
        }
    }
    FldSpec { n, budget: DEFAULT_BUDGET, ops }
}
