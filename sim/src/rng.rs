//! The only source of choices in the simulator: splitmix64 + xoshiro256**, written here so
//! that no dependency upgrade can change a stream. Logging never draws from it.

#[inline]
pub fn splitmix64(state: &mut u64) -> u64 {
    *state = state.wrapping_add(0x9E37_79B9_7F4A_7C15);
    let mut z = *state;
    z = (z ^ (z >> 30)).wrapping_mul(0xBF58_476D_1CE4_E5B9);
    z = (z ^ (z >> 27)).wrapping_mul(0x94D0_49BB_1331_11EB);
    z ^ (z >> 31)
}

/// seed of run `index` of world `world` under master seed `master`.
pub fn run_seed(master: u64, world: u64, index: u64) -> u64 {
    let mut s = master ^ 0x5EED_5EED_5EED_5EED;
    let a = splitmix64(&mut s);
    let mut s2 = a ^ world.wrapping_mul(0xA24B_AED4_963E_E407);
    let b = splitmix64(&mut s2);
    let mut s3 = b ^ index.wrapping_mul(0x9FB2_1C65_1E98_DF25);
    splitmix64(&mut s3)
}

#[derive(Clone, Debug)]
pub struct Prng {
    s: [u64; 4],
}

impl Prng {
    pub fn new(seed: u64) -> Self {
        let mut st = seed;
        let s = [
            splitmix64(&mut st),
            splitmix64(&mut st),
            splitmix64(&mut st),
            splitmix64(&mut st),
        ];
        Prng { s }
    }
    /// independent sub-stream for a label (cfg / prog / fault / rngseam ...)
    pub fn split(seed: u64, label: &str) -> Self {
        let mut h: u64 = 0xcbf2_9ce4_8422_2325;
        for b in label.bytes() {
            h ^= b as u64;
            h = h.wrapping_mul(0x0000_0100_0000_01B3);
        }
        Prng::new(seed ^ h.rotate_left(17))
    }
    #[inline]
    pub fn next_u64(&mut self) -> u64 {
        let result = self.s[1].wrapping_mul(5).rotate_left(7).wrapping_mul(9);
        let t = self.s[1] << 17;
        self.s[2] ^= self.s[0];
        self.s[3] ^= self.s[1];
        self.s[1] ^= self.s[2];
        self.s[0] ^= self.s[3];
        self.s[2] ^= t;
        self.s[3] = self.s[3].rotate_left(45);
        result
    }
    /// uniform in 0..n (n > 0); tiny modulo bias is irrelevant here
    #[inline]
    pub fn below(&mut self, n: u64) -> u64 {
        debug_assert!(n > 0);
        ((self.next_u64() as u128 * n as u128) >> 64) as u64
    }
    #[inline]
    pub fn usize_below(&mut self, n: usize) -> usize {
        self.below(n as u64) as usize
    }
    #[inline]
    pub fn chance(&mut self, num: u64, den: u64) -> bool {
        self.below(den) < num
    }
    pub fn pick<'a, T>(&mut self, xs: &'a [T]) -> &'a T {
        &xs[self.usize_below(xs.len())]
    }
    pub fn bytes(&mut self, n: usize) -> Vec<u8> {
        let mut v = Vec::with_capacity(n + 8);
        while v.len() < n {
            v.extend_from_slice(&self.next_u64().to_be_bytes());
        }
        v.truncate(n);
        v
    }
    /// geometric-ish length: median around `median`, capped at `max`, at least 1
    pub fn length(&mut self, median: usize, max: usize) -> usize {
        let mut n = 1usize;
        // continue with probability 1 - ln2/median (integer odds; no floats anywhere in
        // the simulator so that every build draws identically)
        let m = median.max(1) as u64;
        let den = 1000 * m;
        let num = den - 693;
        while n < max && self.below(den) < num {
            n += 1;
        }
        n
    }
}

/// 64-bit FNV-1a style chained digest used for fingerprints (not cryptographic; only has to
/// make accidental collisions between different outcomes negligible).
#[derive(Clone, Copy, Debug)]
pub struct Digest(pub u64);

impl Digest {
    pub fn new() -> Self {
        Digest(0x6a09_e667_f3bc_c908)
    }
    pub fn bytes(&mut self, b: &[u8]) {
        let mut h = self.0;
        for &x in b {
            h ^= x as u64;
            h = h.wrapping_mul(0x0000_0100_0000_01B3);
        }
        h ^= b.len() as u64;
        h = h.wrapping_mul(0x9E37_79B9_7F4A_7C15);
        h ^= h >> 29;
        self.0 = h;
    }
    pub fn u64(&mut self, v: u64) {
        self.bytes(&v.to_le_bytes());
    }
    pub fn str(&mut self, s: &str) {
        self.bytes(s.as_bytes());
    }
}
