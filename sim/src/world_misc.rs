//! W-misc: the rest of the public API on valid *and malformed* values, with no oracle of its
//! own: every step's result bytes (or panic message) go into the digest. Used by C18 only,
//! where the same runs are executed by two builds and the digests are compared.

use crate::common::*;
use crate::model::{self, hex, unhex, Fmt, FMTS};
use crate::rng::{Digest, Prng};
use crate::world_grp::LibG;
use serde::{Deserialize, Serialize};
use sm9_core::{fast_pairing, pairing, AffineG1, AffineG2, Fq, Fq2, Fr, G2Prepared, Group, Gt, G1, G2};

#[derive(Clone, Debug, PartialEq, Eq, Serialize, Deserialize)]
#[serde(tag = "op")]
pub enum MOp {
    FrBytes { dst: usize, bytes: String },
    FqBytes { dst: usize, bytes: String },
    FqArith { dst: usize, a: usize, b: usize, o: u8 },
    FqUnary { dst: usize, a: usize, o: u8 },
    FromHash { dst: usize, bytes: String },
    ToBigEndian { a: usize, len: usize },
    Q2New { dst: usize, a: usize, b: usize },
    Q2Arith { dst: usize, a: usize, b: usize, o: u8 },
    Q2Sqrt { dst: usize, a: usize },
    /// Jacobian triple from arbitrary field registers (not necessarily on the curve)
    G1New { dst: usize, x: usize, y: usize, z: usize },
    G2New { dst: usize, x: usize, y: usize, z: usize },
    G1Set { dst: usize, which: u8, v: usize },
    G2Set { dst: usize, which: u8, v: usize },
    G1Gen { dst: usize, s: usize },
    G2Gen { dst: usize, s: usize },
    G1Op { dst: usize, a: usize, b: usize, s: usize, o: u8 },
    G2Op { dst: usize, a: usize, b: usize, s: usize, o: u8 },
    G1Enc { a: usize, fmt: Fmt },
    G2Enc { a: usize, fmt: Fmt },
    G1Dec { dst: usize, bytes: String, fmt: Fmt },
    G2Dec { dst: usize, bytes: String, fmt: Fmt },
    AffineNew { g2: bool, x: usize, y: usize },
    Pair { dst: usize, g1: usize, g2: usize, entry: u8 },
    GtMul { dst: usize, a: usize, b: usize },
    GtPow { dst: usize, a: usize, s: usize },
    GtInv { dst: usize, a: usize },
}

#[derive(Clone, Debug, Serialize, Deserialize)]
pub struct MiscSpec {
    pub n: usize,
    pub budget: u64,
    pub ops: Vec<MOp>,
}

struct St {
    fr: Vec<Fr>,
    fq: Vec<Fq>,
    q2: Vec<Fq2>,
    g1: Vec<G1>,
    g2: Vec<G2>,
    gt: Vec<Gt>,
}

fn g1_bytes(p: &G1) -> Vec<u8> {
    let mut v = p.x().to_slice().to_vec();
    v.extend_from_slice(&p.y().to_slice());
    v.extend_from_slice(&p.z().to_slice());
    v
}

fn g2_bytes(p: &G2) -> Vec<u8> {
    let mut v = p.x().to_slice().to_vec();
    v.extend_from_slice(&p.y().to_slice());
    v.extend_from_slice(&p.z().to_slice());
    v
}

fn step(st: &mut St, op: &MOp, n: usize) -> Vec<u8> {
    match op {
        MOp::FrBytes { dst, bytes } => match Fr::from_slice(&unhex(bytes)) {
            Some(v) => {
                st.fr[*dst % n] = v;
                v.to_slice().to_vec()
            }
            None => b"None".to_vec(),
        },
        MOp::FqBytes { dst, bytes } => match Fq::from_slice(&unhex(bytes)) {
            Some(v) => {
                st.fq[*dst % n] = v;
                v.to_slice().to_vec()
            }
            None => b"None".to_vec(),
        },
        MOp::FqArith { dst, a, b, o } => {
            let (x, y) = (st.fq[*a % n], st.fq[*b % n]);
            let v = match o % 4 {
                0 => x + y,
                1 => x - y,
                2 => x * y,
                _ => x.pow(y),
            };
            st.fq[*dst % n] = v;
            v.to_slice().to_vec()
        }
        MOp::FqUnary { dst, a, o } => {
            let x = st.fq[*a % n];
            let v = match o % 4 {
                0 => Some(-x),
                1 => x.inverse(),
                2 => x.sqrt(),
                _ => Some(if x.is_even() { x } else { x + Fq::one() }),
            };
            match v {
                Some(v) => {
                    st.fq[*dst % n] = v;
                    v.to_slice().to_vec()
                }
                None => b"None".to_vec(),
            }
        }
        MOp::FromHash { dst, bytes } => match Fr::from_hash(&unhex(bytes)) {
            Some(v) => {
                st.fr[*dst % n] = v;
                v.to_slice().to_vec()
            }
            None => b"None".to_vec(),
        },
        MOp::ToBigEndian { a, len } => {
            let mut buf = vec![0u8; *len];
            match st.fq[*a % n].to_big_endian(&mut buf) {
                Ok(()) => buf,
                Err(e) => format!("{:?}", e).into_bytes(),
            }
        }
        MOp::Q2New { dst, a, b } => {
            let v = Fq2::new(st.fq[*a % n], st.fq[*b % n]);
            st.q2[*dst % n] = v;
            v.to_slice().to_vec()
        }
        MOp::Q2Arith { dst, a, b, o } => {
            let (x, y) = (st.q2[*a % n], st.q2[*b % n]);
            let v = match o % 4 {
                0 => x + y,
                1 => x - y,
                2 => x * y,
                _ => -x,
            };
            st.q2[*dst % n] = v;
            let mut out = v.to_slice().to_vec();
            out.push(v.is_even() as u8);
            out
        }
        MOp::Q2Sqrt { dst, a } => match st.q2[*a % n].sqrt() {
            Some(v) => {
                st.q2[*dst % n] = v;
                v.to_slice().to_vec()
            }
            None => b"None".to_vec(),
        },
        MOp::G1New { dst, x, y, z } => {
            let p = G1::new(st.fq[*x % n], st.fq[*y % n], st.fq[*z % n]);
            st.g1[*dst % n] = p;
            g1_bytes(&p)
        }
        MOp::G2New { dst, x, y, z } => {
            let p = G2::new(st.q2[*x % n], st.q2[*y % n], st.q2[*z % n]);
            st.g2[*dst % n] = p;
            g2_bytes(&p)
        }
        MOp::G1Set { dst, which, v } => {
            let mut p = st.g1[*dst % n];
            let f = st.fq[*v % n];
            match which % 3 {
                0 => p.set_x(f),
                1 => p.set_y(f),
                _ => p.set_z(f),
            }
            st.g1[*dst % n] = p;
            g1_bytes(&p)
        }
        MOp::G2Set { dst, which, v } => {
            let mut p = st.g2[*dst % n];
            let f = st.q2[*v % n];
            match which % 3 {
                0 => p.set_x(f),
                1 => p.set_y(f),
                _ => p.set_z(f),
            }
            st.g2[*dst % n] = p;
            g2_bytes(&p)
        }
        MOp::G1Gen { dst, s } => {
            let p = G1::one() * st.fr[*s % n];
            st.g1[*dst % n] = p;
            g1_bytes(&p)
        }
        MOp::G2Gen { dst, s } => {
            let p = G2::one() * st.fr[*s % n];
            st.g2[*dst % n] = p;
            g2_bytes(&p)
        }
        MOp::G1Op { dst, a, b, s, o } => {
            let (x, y, k) = (st.g1[*a % n], st.g1[*b % n], st.fr[*s % n]);
            let mut out = Vec::new();
            let p = match o % 7 {
                0 => x + y,
                1 => x - y,
                2 => -x,
                3 => x * k,
                4 => k * x,
                5 => {
                    let mut t = x;
                    t.normalize();
                    t
                }
                _ => {
                    out.push((x == y) as u8);
                    out.push(x.is_zero() as u8);
                    x
                }
            };
            st.g1[*dst % n] = p;
            out.extend_from_slice(&g1_bytes(&p));
            out
        }
        MOp::G2Op { dst, a, b, s, o } => {
            let (x, y, k) = (st.g2[*a % n], st.g2[*b % n], st.fr[*s % n]);
            let mut out = Vec::new();
            let p = match o % 7 {
                0 => x + y,
                1 => x - y,
                2 => -x,
                3 => x * k,
                4 => k * x,
                5 => {
                    let mut t = x;
                    t.normalize();
                    t
                }
                _ => {
                    out.push((x == y) as u8);
                    out.push(x.is_zero() as u8);
                    x
                }
            };
            st.g2[*dst % n] = p;
            out.extend_from_slice(&g2_bytes(&p));
            out
        }
        MOp::G1Enc { a, fmt } => st.g1[*a % n].enc(*fmt),
        MOp::G2Enc { a, fmt } => st.g2[*a % n].enc(*fmt),
        MOp::G1Dec { dst, bytes, fmt } => match G1::dec(&unhex(bytes), *fmt) {
            Ok(p) => {
                st.g1[*dst % n] = p;
                g1_bytes(&p)
            }
            Err(e) => e.into_bytes(),
        },
        MOp::G2Dec { dst, bytes, fmt } => match G2::dec(&unhex(bytes), *fmt) {
            Ok(p) => {
                st.g2[*dst % n] = p;
                g2_bytes(&p)
            }
            Err(e) => e.into_bytes(),
        },
        MOp::AffineNew { g2, x, y } => {
            if *g2 {
                match AffineG2::new(st.q2[*x % n], st.q2[*y % n]) {
                    Ok(_) => b"Ok".to_vec(),
                    Err(e) => format!("{:?}", e).into_bytes(),
                }
            } else {
                match AffineG1::new(st.fq[*x % n], st.fq[*y % n]) {
                    Ok(_) => b"Ok".to_vec(),
                    Err(e) => format!("{:?}", e).into_bytes(),
                }
            }
        }
        MOp::Pair { dst, g1, g2, entry } => {
            let (p, q) = (st.g1[*g1 % n], st.g2[*g2 % n]);
            let g = match entry % 3 {
                0 => pairing(p, q),
                1 => fast_pairing(p, q),
                _ => G2Prepared::from(q).pairing(&p),
            };
            st.gt[*dst % n] = g;
            g.to_slice().to_vec()
        }
        MOp::GtMul { dst, a, b } => {
            let g = st.gt[*a % n] * st.gt[*b % n];
            st.gt[*dst % n] = g;
            g.to_slice().to_vec()
        }
        MOp::GtPow { dst, a, s } => {
            let g = st.gt[*a % n].pow(st.fr[*s % n]);
            st.gt[*dst % n] = g;
            g.to_slice().to_vec()
        }
        MOp::GtInv { dst, a } => match st.gt[*a % n].inverse() {
            Some(g) => {
                st.gt[*dst % n] = g;
                g.to_slice().to_vec()
            }
            None => b"None".to_vec(),
        },
    }
}

pub fn exec(spec: &MiscSpec, _prop: &str) -> RunResult {
    let mut res = RunResult::default();
    let n = spec.n.max(1).min(8);
    let mut st = St {
        fr: (0..n).map(|i| if i % 2 == 0 { Fr::one() } else { Fr::zero() }).collect(),
        fq: (0..n).map(|i| if i % 2 == 0 { Fq::one() } else { Fq::zero() }).collect(),
        q2: (0..n).map(|i| if i % 2 == 0 { Fq2::one() } else { Fq2::zero() }).collect(),
        g1: (0..n).map(|i| if i % 2 == 0 { G1::one() } else { G1::zero() }).collect(),
        g2: (0..n).map(|i| if i % 2 == 0 { G2::one() } else { G2::zero() }).collect(),
        gt: (0..n).map(|_| Gt::one()).collect(),
    };
    let mut dg = Digest::new();
    for (i, op) in spec.ops.iter().enumerate() {
        res.steps += 1;
        let budget = match op {
            MOp::Pair { .. } => spec.budget * 32,
            _ => spec.budget * 4,
        };
        let out = match guarded(budget, || step(&mut st, op, n)) {
            Ok(b) => b,
            Err(msg) => {
                res.panics.push((i, msg.clone()));
                res.count("panic_outcomes");
                msg.into_bytes()
            }
        };
        let name = serde_json::to_value(op).ok().and_then(|v| v.get("op").and_then(|o| o.as_str().map(|s| s.to_string()))).unwrap_or_default();
        res.reach(format!("misc|{}", name));
        dg.u64(i as u64);
        dg.bytes(&out);
        res.step_digests.push(dg.0);
    }
    res.fingerprint = dg.0;
    res
}

fn junk_bytes(pr: &mut Prng, len: usize) -> Vec<u8> {
    let q = model::q();
    match pr.below(8) {
        0 => vec![0u8; len],
        1 => vec![0xFF; len],
        2 if len >= 32 => {
            let mut v = pr.bytes(len);
            let l = v.len();
            v[l - 32..].copy_from_slice(&model::be32(&(q - pr.below(3))));
            v
        }
        3 if len >= 32 => {
            let mut v = vec![0u8; len];
            let l = v.len();
            v[l - 32..].copy_from_slice(&model::be32(&(q + pr.below(3))));
            v
        }
        4 | 5 => {
            // limb-sparse value (zero / all-ones / single-bit limbs): U512 division and carry paths
            let v = crate::world_fld::limb_sparse(pr, (len + 7) / 8);
            let full = v.to_bytes_be();
            let mut out = vec![0u8; len];
            if full.len() >= len {
                out.copy_from_slice(&full[full.len() - len..]);
            } else {
                out[len - full.len()..].copy_from_slice(&full);
            }
            out
        }
        _ => pr.bytes(len),
    }
}

pub fn generate(seed: u64) -> MiscSpec {
    let mut cfg = Prng::split(seed, "cfg");
    let mut pr = Prng::split(seed, "prog");
    let n = 2 + cfg.usize_below(4);
    let len = cfg.length(10, 40);
    let pair_ok = cfg.chance(1, 3);
    let mut ops = Vec::new();
    while ops.len() < len {
        let dst = pr.usize_below(n);
        let a = pr.usize_below(n);
        let b = pr.usize_below(n);
        let s = pr.usize_below(n);
        let o = pr.next_u64() as u8;
        let blen = match pr.below(6) {
            0 => pr.usize_below(71),
            1 => 64,
            2 => 33,
            _ => 32,
        };
        let op = match pr.below(30) {
            0 | 1 => MOp::FrBytes { dst, bytes: hex(&junk_bytes(&mut pr, blen)) },
            2 | 3 => MOp::FqBytes { dst, bytes: hex(&junk_bytes(&mut pr, blen)) },
            4 | 5 => MOp::FqArith { dst, a, b, o },
            6 => MOp::FqUnary { dst, a, o },
            7 => MOp::FromHash { dst, bytes: hex(&junk_bytes(&mut pr, blen)) },
            8 => MOp::ToBigEndian { a, len: pr.usize_below(71) },
            9 => MOp::Q2New { dst, a, b },
            10 => MOp::Q2Arith { dst, a, b, o },
            11 => MOp::Q2Sqrt { dst, a },
            12 => MOp::G1New { dst, x: a, y: b, z: s },
            13 => MOp::G2New { dst, x: a, y: b, z: s },
            14 => MOp::G1Set { dst, which: o, v: a },
            15 => MOp::G2Set { dst, which: o, v: a },
            16 => MOp::G1Gen { dst, s },
            17 => MOp::G2Gen { dst, s },
            18 | 19 => MOp::G1Op { dst, a, b, s, o },
            20 | 21 => MOp::G2Op { dst, a, b, s, o },
            22 => MOp::G1Enc { a, fmt: *pr.pick(&FMTS) },
            23 => MOp::G2Enc { a, fmt: *pr.pick(&FMTS) },
            24 => {
                let fmt = *pr.pick(&FMTS);
                let l = match fmt {
                    Fmt::Raw => 64,
                    Fmt::Unc => 65,
                    Fmt::Cmp => 33,
                };
                let mut by = junk_bytes(&mut pr, l);
                if fmt != Fmt::Raw && pr.chance(3, 4) {
                    by[0] = *pr.pick(&[2u8, 3, 4, 6, 7]);
                }
                MOp::G1Dec { dst, bytes: hex(&by), fmt }
            }
            25 => {
                let fmt = *pr.pick(&FMTS);
                let l = match fmt {
                    Fmt::Raw => 128,
                    Fmt::Unc => 129,
                    Fmt::Cmp => 65,
                };
                let mut by = junk_bytes(&mut pr, l);
                if fmt != Fmt::Raw && pr.chance(3, 4) {
                    by[0] = *pr.pick(&[2u8, 3, 4, 6, 7]);
                }
                MOp::G2Dec { dst, bytes: hex(&by), fmt }
            }
            26 => MOp::AffineNew { g2: pr.chance(1, 2), x: a, y: b },
            27 => {
                if pair_ok {
                    MOp::Pair { dst, g1: a, g2: b, entry: o }
                } else {
                    MOp::GtMul { dst, a, b }
                }
            }
            28 => MOp::GtPow { dst, a, s },
            _ => {
                if pr.chance(1, 2) {
                    MOp::GtInv { dst, a }
                } else {
                    MOp::GtMul { dst, a, b }
                }
            }
        };
        ops.push(op);
    }
    MiscSpec { n, budget: DEFAULT_BUDGET, ops }
}
