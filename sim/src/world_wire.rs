//! W-wire: the untrusted byte boundary (properties C08, C09, C10).
//!
//! A sender (library code, history-dependent representation) encodes a point; a channel owned
//! by the simulator delivers it intact or faulted; every decoder of both groups receives every
//! delivery. The reference codec of the model decides each delivery exactly.

use crate::common::*;
use crate::model::{self, be32, from_be, hex, pmul, padd, ref_decode, ref_encode, unhex, Fmt, Pt, Q, Q2, RefExit, FMTS, RF};
use crate::rng::{Digest, Prng};
use crate::world_grp::{alphabet_scalar, fr_of, Grp, LibG};
use num_bigint::BigUint;
use num_traits::{One, Zero};
use serde::{Deserialize, Serialize};
use sm9_core::{AffineG1, AffineG2, Fq, Fq2, G1, G2};

#[derive(Clone, Debug, PartialEq, Eq, Serialize, Deserialize)]
pub enum Repr {
    /// normalize()d: z = 1
    Norm,
    /// as left by the library's scalar multiplication (Jacobian z)
    Jac,
    /// computed as a*G + (k-a)*G: another Jacobian scale
    Sum(String),
    /// (lam^2 x, lam^3 y, lam z) through the public constructor
    Rescaled(String),
    /// AffineG::from_jacobian then From<AffineG>
    AffineRt,
    /// rescaled so that the Jacobian X (which = 0) or Y (which = 1) coordinate equals a constant
    AimCoord { which: u8, target: String },
    /// -(-P): the negation's output representation, twice
    NegNeg,
    /// h*G + h*G with 2h = k: what the adder's doubling path leaves behind
    Doubled,
    /// P + (T - T) or (T - T) + P: added to an identity made by cancellation
    PlusId { left: bool },
}

impl Repr {
    pub fn name(&self) -> &'static str {
        match self {
            Repr::Norm => "norm",
            Repr::Jac => "jac",
            Repr::Sum(_) => "sum",
            Repr::Rescaled(_) => "rescaled",
            Repr::AffineRt => "affine_rt",
            Repr::AimCoord { .. } => "aim_coord",
            Repr::NegNeg => "neg_neg",
            Repr::Doubled => "doubled",
            Repr::PlusId { left: true } => "id_plus",
            Repr::PlusId { left: false } => "plus_id",
        }
    }
}

/// where the sent value comes from: k * generator, or (G1 only) the curve point with a chosen
/// boundary x-coordinate, built through the public constructor from model-computed (x, y)
#[derive(Clone, Debug, PartialEq, Eq, Serialize, Deserialize, Default)]
pub struct FromX {
    pub x: String,
    pub y_odd: bool,
}

fn base_point<G: LibG>(k: &BigUint, from_x: &Option<FromX>) -> G {
    if let Some(fx) = from_x {
        if G::GRP == Grp::G1 {
            let x = Q::new(from_be(&unhex(&fx.x)));
            if let Some((x, y)) = model::g1_point_with_x(&x) {
                let y = if y.is_odd() == fx.y_odd { y } else { y.neg() };
                if let Some(p) = G::from_affine_parts(&[be32(&x.0)], &[be32(&y.0)]) {
                    return p;
                }
            }
        }
    }
    G::one() * fr_of(k)
}

fn make_repr<G: LibG>(k: &BigUint, from_x: &Option<FromX>, repr: &Repr) -> G {
    let r = model::r();
    let base: G = base_point::<G>(k, from_x);
    match repr {
        Repr::Jac => {
            if from_x.is_some() {
                // a history-made Jacobian representative of the same point
                let t = G::one() * fr_of(&BigUint::from(3u32));
                (base + t) - t
            } else {
                base
            }
        }
        Repr::Norm => {
            let mut p = base;
            p.normalize();
            p
        }
        Repr::Sum(a) => {
            let a = from_be(&unhex(a)) % r;
            if from_x.is_some() {
                let t = G::one() * fr_of(&a);
                (base - t) + t
            } else {
                let b = model::msub(k, &a, r);
                G::one() * fr_of(&a) + G::one() * fr_of(&b)
            }
        }
        Repr::Rescaled(lam) => base.rescale(&unhex(lam)).unwrap_or(base),
        Repr::AffineRt => base.affine_rt().unwrap_or(base),
        Repr::AimCoord { which, target } => {
            let t = from_be(&unhex(target)) % model::q();
            base.aim(*which, &t).and_then(|lam| base.rescale(&lam)).unwrap_or(base)
        }
        Repr::NegNeg => -(-base),
        Repr::Doubled => {
            if from_x.is_some() {
                let t = base + base;
                t - base
            } else {
                let half = (k * model::minv(&BigUint::from(2u32), r).unwrap()) % r;
                let h = G::one() * fr_of(&half);
                h + h
            }
        }
        Repr::PlusId { left } => {
            let t = G::one() * fr_of(&BigUint::from(3u32));
            let o = t - t;
            if *left {
                o + base
            } else {
                base + o
            }
        }
    }
}

/// boundary x-coordinates that carry a G1 point (cofactor 1: every curve point is in G1):
/// small integers, q-1 (the point (-1, +-2)), powers of two, values just below q, limb-sparse
/// x-coordinates of G1 points whose CURVE-EQUATION VALUE y^2 = x^3 + 5 is special rather than x
/// itself: y^2 limb-sparse as a canonical integer (e.g. a multiple of 2^64) or in stored
/// (Montgomery) form; x = cbrt(y^2 - 5) (q = 4 mod 9: cube root by one exponentiation)
fn boundary_y2_x(pr: &mut Prng) -> Option<BigUint> {
    let q = model::q();
    let rr = BigUint::one() << 256;
    let e = ((q * 2u32) + 1u32) / 9u32;
    for _ in 0..24 {
        let raw = match pr.below(4) {
            0 => crate::world_fld::limb_sparse(pr, 3) << 64,
            1 => crate::world_fld::limb_sparse(pr, 4),
            2 => BigUint::from(pr.next_u64()) << (64 * (1 + pr.below(3)) as u32),
            _ => crate::world_fld::limb_patterns(pr, q),
        } % q;
        // canonical or stored form
        let t = if pr.chance(1, 2) { raw } else { (raw * model::minv(&(&rr % q), q).unwrap()) % q };
        if t.is_zero() || !model::is_square_mod(&t, q) {
            continue;
        }
        let c = model::msub(&t, &BigUint::from(5u32), q);
        let x = c.modpow(&e, q);
        if (&x * &x * &x) % q == c {
            return Some(x);
        }
    }
    None
}

pub fn boundary_x(pr: &mut Prng) -> FromX {
    let q = model::q();
    if pr.chance(1, 3) {
        if let Some(x) = boundary_y2_x(pr) {
            return FromX { x: hex(&be32(&x)), y_odd: pr.chance(1, 2) };
        }
    }
    let mut x = match pr.below(9) {
        0 => q - 1u32,
        1 => BigUint::from(pr.below(64)),
        2 => BigUint::one() << (pr.below(255) as u32),
        3 => q - 1u32 - pr.below(1 << 16),
        4 => q - (BigUint::one() << (pr.below(192) as u32)),
        5 => crate::world_fld::limb_sparse(pr, 4) % q,
        6 => q - 1u32 - (crate::world_fld::limb_sparse(pr, 3)),
        7 => crate::world_fld::limb_sparse(pr, 3),
        _ => from_be(&pr.bytes(24)),
    } % q;
    for _ in 0..64 {
        if model::g1_point_with_x(&Q::new(x.clone())).is_some() {
            break;
        }
        x = (x + 1u32) % q;
    }
    FromX { x: hex(&be32(&x)), y_odd: pr.chance(1, 2) }
}

fn gen_repr(pr: &mut Prng, g: Grp) -> Repr {
    let r = model::r();
    match pr.below(6) {
        0 | 1 => Repr::Norm,
        2 => Repr::Jac,
        3 => Repr::Sum(hex(&be32(&((from_be(&pr.bytes(32)) % (r - 3u32)) + 1u32)))),
        4 => Repr::Rescaled(gen_lambda(pr, g)),
        _ => Repr::AffineRt,
    }
}

fn gen_lambda(pr: &mut Prng, g: Grp) -> String {
    let q = model::q();
    let pick = |pr: &mut Prng| -> BigUint {
        match pr.below(7) {
            5 | 6 => crate::world_grp::special_fq(pr),
            0 => q - 1u32,
            1 => {
                if pr.chance(1, 2) {
                    BigUint::from(2u32)
                } else {
                    BigUint::one()
                }
            }
            _ => (from_be(&pr.bytes(32)) % (q - 1u32)) + 1u32,
        }
    };
    match g {
        Grp::G1 => hex(&be32(&pick(pr))),
        Grp::G2 => {
            // real, purely imaginary (structured z), or general lambda
            let (re, im) = match pr.below(6) {
                0 => (pick(pr), BigUint::zero()),
                1 => (BigUint::zero(), pick(pr)),
                _ => (pick(pr), pick(pr)),
            };
            let mut v = be32(&im).to_vec();
            v.extend_from_slice(&be32(&re));
            hex(&v)
        }
    }
}

// ---------------------------------------------------------------------------------------
// decoders

pub const DECODERS: [(Grp, Fmt); 6] = [
    (Grp::G1, Fmt::Raw),
    (Grp::G1, Fmt::Unc),
    (Grp::G1, Fmt::Cmp),
    (Grp::G2, Fmt::Raw),
    (Grp::G2, Fmt::Unc),
    (Grp::G2, Fmt::Cmp),
];

pub fn decoder_name(g: Grp, f: Fmt) -> String {
    format!(
        "{:?}::{}",
        g,
        match f {
            Fmt::Raw => "from_slice",
            Fmt::Unc => "from_uncompressed",
            Fmt::Cmp => "from_compressed",
        }
    )
}

/// library decode; on Ok returns (re-encoding in the same format, raw encoding)
fn lib_decode(g: Grp, f: Fmt, b: &[u8]) -> Result<(Vec<u8>, Vec<u8>), String> {
    match g {
        Grp::G1 => G1::dec(b, f).map(|p| (p.enc(f), p.enc(Fmt::Raw))),
        Grp::G2 => G2::dec(b, f).map(|p| (p.enc(f), p.enc(Fmt::Raw))),
    }
}

fn ref_dec(g: Grp, f: Fmt, b: &[u8]) -> Result<Vec<u8>, RefExit> {
    match g {
        Grp::G1 => ref_decode::<Q>(b, f, false).map(|p| ref_encode(&p, Fmt::Raw)),
        Grp::G2 => ref_decode::<Q2>(b, f, true).map(|p| ref_encode(&p, Fmt::Raw)),
    }
}

fn msg_len(g: Grp, f: Fmt) -> usize {
    match g {
        Grp::G1 => f.len::<Q>(),
        Grp::G2 => f.len::<Q2>(),
    }
}

// ---------------------------------------------------------------------------------------
// C08: channel faults

#[derive(Clone, Debug, PartialEq, Eq, Serialize, Deserialize)]
#[serde(tag = "f")]
pub enum Fault {
    Intact,
    Bitflip { pos: usize },
    ByteSet { pos: usize, v: u8 },
    Truncate { len: usize },
    Extend { len: usize, fill: u8 },
    ExtendRandom { len: usize, sub: u64 },
    DropFront { n: usize },
    Prepend { v: u8 },
    /// add q to the 32-byte coordinate number `which` (if the sum fits in 256 bits)
    CoordPlusQ { which: usize },
    CoordSet { which: usize, v: String },
    NegateY,
    SwapHalves,
    Fill { v: u8 },
    Multi { edits: Vec<(usize, u8)> },
    /// replace the message by the encoding of another value (stale / misrouted message)
    Other { g: Grp, k: String, fmt: Fmt },
    /// arbitrary bytes (used by replay files of minimised violations and by seeded junk)
    Bytes { b: String },
    // ---- macro faults, expanded at execution time in a fixed order ----
    AllBitflips,
    /// seeded sample of n bit positions inside [from, to) plus all positions outside
    SampledBitflips { from: usize, to: usize, n: usize, sub: u64 },
    AllFirstBytes,
    AllLengths { fill: u8 },
    AllLengthsRandom { sub: u64 },
}

impl Fault {
    pub fn kind(&self) -> &'static str {
        match self {
            Fault::Intact => "intact",
            Fault::Bitflip { .. } => "bitflip",
            Fault::ByteSet { .. } => "byteset",
            Fault::Truncate { .. } => "truncate",
            Fault::Extend { .. } | Fault::ExtendRandom { .. } => "extend",
            Fault::DropFront { .. } => "dropfront",
            Fault::Prepend { .. } => "prepend",
            Fault::CoordPlusQ { .. } => "coord_plus_q",
            Fault::CoordSet { .. } => "coord_set",
            Fault::NegateY => "negate_y",
            Fault::SwapHalves => "swap_halves",
            Fault::Fill { .. } => "fill",
            Fault::Multi { .. } => "multi",
            Fault::Other { .. } => "stale",
            Fault::Bytes { .. } => "bytes",
            Fault::AllBitflips | Fault::SampledBitflips { .. } => "bitflip",
            Fault::AllFirstBytes => "byteset",
            Fault::AllLengths { .. } | Fault::AllLengthsRandom { .. } => "length",
        }
    }
}

#[derive(Clone, Debug, Serialize, Deserialize)]
pub struct Wire8Spec {
    pub g: Grp,
    pub k: String,
    #[serde(default)]
    pub from_x: Option<FromX>,
    pub repr: Repr,
    pub fmt: Fmt,
    pub budget: u64,
    pub ops: Vec<Fault>,
}

fn expand(f: &Fault, msg: &[u8]) -> Vec<Fault> {
    match f {
        Fault::AllBitflips => (0..msg.len() * 8).map(|pos| Fault::Bitflip { pos }).collect(),
        Fault::SampledBitflips { from, to, n, sub } => {
            let mut v: Vec<Fault> = Vec::new();
            for pos in 0..msg.len() * 8 {
                if pos < *from || pos >= *to {
                    v.push(Fault::Bitflip { pos });
                }
            }
            let mut pr = Prng::new(*sub);
            let span = to.saturating_sub(*from).max(1);
            let mut seen = std::collections::BTreeSet::new();
            for _ in 0..*n {
                let pos = from + pr.usize_below(span);
                if seen.insert(pos) && pos < msg.len() * 8 {
                    v.push(Fault::Bitflip { pos });
                }
            }
            v
        }
        Fault::AllFirstBytes => (0..=255u8).map(|v| Fault::ByteSet { pos: 0, v }).collect(),
        Fault::AllLengths { fill } => (0..=140usize)
            .filter(|l| *l != msg.len())
            .map(|len| if len < msg.len() { Fault::Truncate { len } } else { Fault::Extend { len, fill: *fill } })
            .collect(),
        Fault::AllLengthsRandom { sub } => (0..=140usize)
            .filter(|l| *l > msg.len())
            .map(|len| Fault::ExtendRandom { len, sub: sub.wrapping_add(len as u64) })
            .collect(),
        other => vec![other.clone()],
    }
}

/// coordinate layout of a message: (offset, count) of 32-byte coordinates
fn coords(g: Grp, f: Fmt) -> (usize, usize) {
    let per = if g == Grp::G1 { 1 } else { 2 };
    match f {
        Fmt::Raw => (0, 2 * per),
        Fmt::Unc => (1, 2 * per),
        Fmt::Cmp => (1, per),
    }
}

fn sender_encode(g: Grp, k: &BigUint, from_x: &Option<FromX>, repr: &Repr, fmt: Fmt) -> Vec<u8> {
    match g {
        Grp::G1 => make_repr::<G1>(k, from_x, repr).enc(fmt),
        Grp::G2 => make_repr::<G2>(k, &None, repr).enc(fmt),
    }
}

/// apply a concrete fault; None = not applicable to this message
fn apply(f: &Fault, msg: &[u8], g: Grp, fmt: Fmt) -> Option<Vec<u8>> {
    let q = model::q();
    let mut b = msg.to_vec();
    match f {
        Fault::Intact => {}
        Fault::Bitflip { pos } => {
            if *pos >= b.len() * 8 {
                return None;
            }
            b[pos / 8] ^= 0x80 >> (pos % 8);
        }
        Fault::ByteSet { pos, v } => {
            if *pos >= b.len() || b[*pos] == *v {
                return None;
            }
            b[*pos] = *v;
        }
        Fault::Truncate { len } => {
            if *len >= b.len() {
                return None;
            }
            b.truncate(*len);
        }
        Fault::Extend { len, fill } => {
            if *len <= b.len() {
                return None;
            }
            b.resize(*len, *fill);
        }
        Fault::ExtendRandom { len, sub } => {
            if *len <= b.len() {
                return None;
            }
            let extra = Prng::new(*sub).bytes(*len - b.len());
            b.extend_from_slice(&extra);
        }
        Fault::DropFront { n } => {
            if *n == 0 || *n > b.len() {
                return None;
            }
            b.drain(..*n);
        }
        Fault::Prepend { v } => b.insert(0, *v),
        Fault::CoordPlusQ { which } => {
            let (off, cnt) = coords(g, fmt);
            if *which >= cnt {
                return None;
            }
            let s = off + 32 * which;
            let c = from_be(&b[s..s + 32]) + q;
            if c.bits() > 256 {
                return None;
            }
            b[s..s + 32].copy_from_slice(&be32(&c));
        }
        Fault::CoordSet { which, v } => {
            let (off, cnt) = coords(g, fmt);
            if *which >= cnt {
                return None;
            }
            let s = off + 32 * which;
            let nv = unhex(v);
            if nv.len() != 32 || b[s..s + 32] == nv[..] {
                return None;
            }
            b[s..s + 32].copy_from_slice(&nv);
        }
        Fault::NegateY => match fmt {
            Fmt::Cmp => b[0] ^= 1,
            _ => {
                let (off, cnt) = coords(g, fmt);
                for w in cnt / 2..cnt {
                    let s = off + 32 * w;
                    let c = from_be(&b[s..s + 32]);
                    let n = model::mneg(&c, q);
                    b[s..s + 32].copy_from_slice(&be32(&n));
                }
            }
        },
        Fault::SwapHalves => {
            let (off, cnt) = coords(g, fmt);
            let half = cnt * 32 / 2;
            let body = b[off..off + cnt * 32].to_vec();
            b[off..off + half].copy_from_slice(&body[half..]);
            b[off + half..off + 2 * half].copy_from_slice(&body[..half]);
            if b == msg {
                return None;
            }
        }
        Fault::Fill { v } => {
            for x in b.iter_mut() {
                *x = *v;
            }
        }
        Fault::Multi { edits } => {
            for (pos, v) in edits {
                if !b.is_empty() {
                    let p = pos % b.len();
                    b[p] = *v;
                }
            }
            if b == msg {
                return None;
            }
        }
        Fault::Other { g: g2, k, fmt: f2 } => {
            let kk = from_be(&unhex(k)) % model::r();
            if kk.is_zero() {
                return None;
            }
            b = sender_encode(*g2, &kk, &None, &Repr::Norm, *f2);
        }
        Fault::Bytes { b: hb } => b = unhex(hb),
        _ => return None,
    }
    Some(b)
}

type Check = Result<(), (String, String)>;

/// deliver one byte string to all six decoders and judge each against the reference codec
fn deliver(bytes: &[u8], budget: u64, res: &mut RunResult, kind: &str, outcome: &mut Vec<u8>) -> Result<(), (String, String, String)> {
    for (g, f) in DECODERS.iter() {
        let dn = decoder_name(*g, *f);
        let lib = guarded(budget, || lib_decode(*g, *f, bytes));
        let lib = match lib {
            Err(msg) => {
                res.panics.push((0, msg.clone()));
                outcome.extend_from_slice(msg.as_bytes());
                return Err(("I08.1".into(), dn.clone(), format!("{} did not return normally on a {}-byte input ({}): {}", dn, bytes.len(), kind, short(&msg))));
            }
            Ok(v) => v,
        };
        // the reference is only consulted when the length fits (otherwise it is Err(Length))
        let refr = ref_dec(*g, *f, bytes);
        let exit = match &refr {
            Ok(_) => RefExit::Ok,
            Err(e) => *e,
        };
        if bytes.len() == msg_len(*g, *f) {
            res.count(&format!("ref_exit:{}", exit.name()));
            res.reach(format!("{}|{}|{}", dn, kind, exit.name()));
        }
        outcome.push(if lib.is_ok() { 1 } else { 0 });
        match (&lib, &refr) {
            (Ok(_), Err(e)) => {
                return Err(("I08.2".into(), dn.clone(), format!("{} accepted a {} input that the format rejects (reference: {}): {}", dn, kind, e.name(), hex(bytes))));
            }
            (Err(le), Ok(_)) => {
                return Err(("I08.2".into(), dn.clone(), format!("{} rejected ({}) a valid encoding ({}): {}", dn, le, kind, hex(bytes))));
            }
            (Ok((same, raw)), Ok(rraw)) => {
                if same[..] != bytes[..] {
                    return Err(("I08.3".into(), dn.clone(), format!("{}: re-encoding the decoded point does not give back the input ({}): in {} out {}", dn, kind, hex(bytes), hex(same))));
                }
                if raw != rraw {
                    return Err(("I08.3".into(), dn.clone(), format!("{}: decoded point differs from the reference decoding ({}): {}", dn, kind, hex(bytes))));
                }
            }
            (Err(_), Err(_)) => {}
        }
    }
    Ok(())
}

pub fn exec8(spec: &Wire8Spec, prop: &str) -> RunResult {
    let mut res = RunResult::default();
    let mut dg = Digest::new();
    let r = model::r();
    let k = from_be(&unhex(&spec.k)) % r;
    let k = if k.is_zero() { BigUint::one() } else { k };
    let msg = match guarded(spec.budget * 8, || sender_encode(spec.g, &k, &spec.from_x, &spec.repr, spec.fmt)) {
        Ok(m) => m,
        Err(e) => {
            // the sender could not even encode: that is C10's business; nothing to deliver
            res.count("sender_failed");
            dg.str(&e);
            res.fingerprint = dg.0;
            return res;
        }
    };
    let mut step = 0usize;
    'outer: for (i, f) in spec.ops.iter().enumerate() {
        for cf in expand(f, &msg) {
            let bytes = match apply(&cf, &msg, spec.g, spec.fmt) {
                Some(b) => b,
                None => {
                    res.count("fault_inapplicable");
                    continue;
                }
            };
            res.steps += 1;
            res.count(&format!("fault_fired:{}", cf.kind()));
            let mut outcome = Vec::new();
            let c = deliver(&bytes, spec.budget * 4, &mut res, cf.kind(), &mut outcome);
            dg.u64(step as u64);
            dg.bytes(&outcome);
            res.step_digests.push(dg.0);
            step += 1;
            if let Err((inv, dn, detail)) = c {
                res.violation = Some(Violation {
                    property: prop.to_string(),
                    invariant: inv.clone(),
                    step: i,
                    signature: format!("{}|{}|decoder={}|fault={}", prop, inv, dn, cf.kind()),
                    detail: format!("{} [sender: {:?} k={} {} {}; fault {}]", detail, spec.g, hex(&be32(&k)), spec.repr.name(), spec.fmt.name(), serde_json::to_string(&cf).unwrap()),
                });
                res.concrete_op = Some(serde_json::to_value(&cf).unwrap());
                break 'outer;
            }
        }
    }
    res.fingerprint = dg.0;
    res
}

/// With x = s + t*u (u^2 = -2): Im(x^3 + 5u) = 3 s^2 t - 2 t^3 + 5, so for a chosen t the
/// right-hand side is real iff s^2 = (2 t^3 - 5)/(3 t). Returns compressed (0x02 / 0x03),
/// raw and uncompressed byte strings built from such x (and a root y, when one exists).
fn g2_real_rhs_messages(pr: &mut Prng) -> Vec<Vec<u8>> {
    let mut out = Vec::new();
    for _ in 0..8 {
        let t = match pr.below(3) {
            0 => Q::from_u64(1 + pr.below(40)),
            _ => Q::new(from_be(&pr.bytes(32))),
        };
        if t.is_zero() {
            continue;
        }
        let t3 = t.sqr().mul(&t);
        let num = t3.add(&t3).sub(&Q::from_u64(5));
        let den = Q::from_u64(3).mul(&t);
        let s2 = num.mul(&den.inv().unwrap());
        let s = match s2.sqrt() {
            Some(s) => s,
            None => continue,
        };
        let s = if pr.chance(1, 2) { s } else { s.neg() };
        let x = Q2 { c0: s, c1: t };
        let rhs = x.sqr().mul(&x).add(&Q2::curve_b());
        if !rhs.c1.is_zero() {
            continue;
        }
        let xb = x.to_bytes();
        for prefix in [2u8, 3u8] {
            let mut m = vec![prefix];
            m.extend_from_slice(&xb);
            out.push(m);
        }
        if let Some(y) = rhs.sqrt() {
            let raw = ref_encode(&(x.clone(), y.clone()), Fmt::Raw);
            out.push(raw.clone());
            let mut unc = vec![4u8];
            unc.extend_from_slice(&raw);
            out.push(unc);
        }
        if out.len() >= 8 {
            break;
        }
    }
    out
}

pub fn generate8(seed: u64, index: u64, thorough: bool) -> Wire8Spec {
    let mut pr = Prng::split(seed, "prog");
    let mut fr = Prng::split(seed, "fault");
    let q = model::q();
    // index decides group x format x representation class so that every cell is covered
    let g = if index % 2 == 0 { Grp::G1 } else { Grp::G2 };
    let fmt = FMTS[((index / 2) % 3) as usize];
    let repr = match (index / 6) % 3 {
        0 => Repr::Norm,
        1 => Repr::Jac,
        _ => gen_repr(&mut pr, g),
    };
    let mut k = alphabet_scalar(&mut pr);
    if k.is_zero() {
        k = BigUint::from(5u32);
    }
    let len = msg_len(g, fmt);
    let (off, cnt) = coords(g, fmt);
    let mut ops = vec![Fault::Intact];
    // bit flips: complete, except x-coordinate bits of a compressed G2 message in the quick tier
    // (half of those land on a twist point and cost a 23 ms reference subgroup test)
    if g == Grp::G2 && fmt == Fmt::Cmp && !thorough {
        ops.push(Fault::SampledBitflips { from: 8, to: len * 8, n: 48, sub: fr.next_u64() });
    } else {
        ops.push(Fault::AllBitflips);
    }
    ops.push(Fault::AllFirstBytes);
    ops.push(Fault::AllLengths { fill: 0 });
    ops.push(Fault::AllLengths { fill: 0xFF });
    ops.push(Fault::AllLengthsRandom { sub: fr.next_u64() });
    for n in 1..=3 {
        ops.push(Fault::DropFront { n });
    }
    for v in [0u8, 2, 3, 4] {
        ops.push(Fault::Prepend { v });
    }
    for which in 0..cnt {
        ops.push(Fault::CoordPlusQ { which });
        for v in [q.clone(), q + 1u32, (BigUint::one() << 256) - 1u32, BigUint::zero(), q - 1u32, BigUint::one()] {
            ops.push(Fault::CoordSet { which, v: hex(&be32(&v)) });
        }
        // q + (limb-sparse value below 2^192): out of range by an amount that leaves the top
        // limb tied with q's while lower limbs wrap; and q - (such a value): in range, tied
        for _ in 0..3 {
            let sp = crate::world_fld::limb_sparse(&mut fr, 3);
            ops.push(Fault::CoordSet { which, v: hex(&be32(&(q + &sp))) });
            if sp < *q {
                ops.push(Fault::CoordSet { which, v: hex(&be32(&(q - &sp))) });
            }
        }
    }
    ops.push(Fault::NegateY);
    ops.push(Fault::SwapHalves);
    ops.push(Fault::Fill { v: 0 });
    ops.push(Fault::Fill { v: 0xFF });
    for _ in 0..24 {
        let n = 1 + fr.usize_below(4);
        let edits = (0..n).map(|_| (off + fr.usize_below(len.saturating_sub(off).max(1)), fr.next_u64() as u8)).collect();
        ops.push(Fault::Multi { edits });
    }
    for _ in 0..8 {
        let g2 = if fr.chance(1, 2) { Grp::G1 } else { Grp::G2 };
        let mut kk = alphabet_scalar(&mut fr);
        if kk.is_zero() {
            kk = BigUint::from(3u32);
        }
        ops.push(Fault::Other { g: g2, k: hex(&be32(&kk)), fmt: *fr.pick(&FMTS) });
    }
    for l in [32usize, 33, 64, 65, 128, 129] {
        ops.push(Fault::Bytes { b: hex(&fr.bytes(l)) });
    }
    // G2 x-coordinates for which x^3 + 5u is a REAL element: its root is real (parity works as
    // usual) or purely imaginary (both roots have an even real part, so prefix 0x03 can never be
    // the encoding of a point): the degenerate corner of "parity of the real part of y"
    for bytes in g2_real_rhs_messages(&mut fr) {
        ops.push(Fault::Bytes { b: hex(&bytes) });
    }
    // valid G1 points with a boundary x or a boundary curve-equation value, in all three formats
    for _ in 0..3 {
        let fx = boundary_x(&mut fr);
        let x = Q::new(from_be(&unhex(&fx.x)));
        if let Some((x, y)) = model::g1_point_with_x(&x) {
            let y = if y.is_odd() == fx.y_odd { y } else { y.neg() };
            for f in FMTS {
                ops.push(Fault::Bytes { b: hex(&ref_encode(&(x.clone(), y.clone()), f)) });
            }
        }
    }
    // a quarter of the G1 messages carry a point with a boundary x-coordinate (leading zero
    // limbs, top limb tied with q's, (-1, +-2), ...) instead of a multiple of the generator
    let from_x = if g == Grp::G1 && pr.chance(1, 4) { Some(boundary_x(&mut pr)) } else { None };
    Wire8Spec { g, k: hex(&be32(&k)), from_x, repr, fmt, budget: DEFAULT_BUDGET, ops }
}

// ---------------------------------------------------------------------------------------
// C09: Byzantine sender

#[derive(Clone, Debug, PartialEq, Eq, Serialize, Deserialize)]
#[serde(tag = "c")]
pub enum Cand {
    /// k*P2: must be accepted
    G2Sub { k: String },
    /// k*P2 + j13*T13 + j1621*T1621 (T of order 13 / 1621): in G2 iff both small parts vanish
    G2Small { k: String, j13: u32, j1621: u32 },
    /// twist point found from an x seed (order r*h'): decided by reference r*T
    G2Twist { seed: String },
    /// (2q-r) * (twist point from seed): a valid subgroup point, must be accepted
    G2Cleared { seed: String },
    /// point of y^2 = x^3 + b' for b' != 5u
    G2WrongB { seed: String, b: String },
    /// k*P1 embedded in Fq2 (a point of the untwisted curve)
    G2Untwisted { k: String },
    G2YPlus1 { k: String },
    G2XPlus1 { k: String },
    /// (lam^2 x, lam^3 y) of k*P2: a point of order r on the other curve y^2 = x^3 + lam^6 b
    /// (the group law never uses b, so only the curve-equation test can reject it)
    G2Scaled { k: String, lam: String },
    /// arbitrary coordinates
    G2Junk { x: String, y: String },
    G1On { k: String, negate: bool },
    /// a G1 point with a boundary x or a boundary curve-equation value (must be accepted)
    G1Boundary { x: String, y_odd: bool },
    G1YPlus1 { k: String },
    G1XPlus1 { k: String },
    G1WrongB { x: String, b: u64 },
    G1Junk { x: String, y: String },
    /// y chosen for the stored limbs of y^2 (a square that wraps past 2^256, needs the final
    /// subtraction, ...); x = cbrt(y^2 - 5 - delta): a point of y^2 = x^3 + 5 + delta, delta != 0
    G1AimedY { y: String, delta: i32 },
    /// y^2 and x^3 + 5 differ by a limb-structured amount in their STORED (Montgomery) form: one
    /// bit, the same bit in two limbs, +-1, one whole limb
    G1StoredNearMiss { x: String, variant: u8, bit: u8, li: u8, lj: u8 },
}

impl Cand {
    pub fn kind(&self) -> &'static str {
        match self {
            Cand::G2Sub { .. } => "g2_subgroup",
            Cand::G2Small { j13, j1621, .. } => match (*j13 % 13 != 0, *j1621 % 1621 != 0) {
                (false, false) => "g2_small_trivial",
                (true, false) => "g2_order13",
                (false, true) => "g2_order1621",
                (true, true) => "g2_order13x1621",
            },
            Cand::G2Twist { .. } => "g2_twist_random",
            Cand::G2Cleared { .. } => "g2_cofactor_cleared",
            Cand::G2WrongB { .. } => "g2_wrong_b",
            Cand::G2Untwisted { .. } => "g2_untwisted",
            Cand::G2YPlus1 { .. } => "g2_y_plus_1",
            Cand::G2XPlus1 { .. } => "g2_x_plus_1",
            Cand::G2Scaled { .. } => "g2_scaled_other_curve",
            Cand::G2Junk { .. } => "g2_junk",
            Cand::G1On { .. } => "g1_on_curve",
            Cand::G1Boundary { .. } => "g1_boundary_point",
            Cand::G1YPlus1 { .. } => "g1_y_plus_1",
            Cand::G1XPlus1 { .. } => "g1_x_plus_1",
            Cand::G1WrongB { .. } => "g1_wrong_b",
            Cand::G1Junk { .. } => "g1_junk",
            Cand::G1AimedY { .. } => "g1_aimed_y_near_miss",
            Cand::G1StoredNearMiss { .. } => "g1_stored_near_miss",
        }
    }
}

#[derive(Clone, Debug, Serialize, Deserialize)]
pub struct Wire9Spec {
    pub budget: u64,
    pub ops: Vec<Cand>,
}

fn small_mul(p: &(Q2, Q2), k: &BigUint) -> Pt<Q2> {
    pmul(&Some(p.clone()), k)
}

fn q2_seed(s: &str) -> Q2 {
    let b = unhex(s);
    let mut v = b.clone();
    v.resize(64, 0);
    Q2::new(from_be(&v[32..]), from_be(&v[..32]))
}

/// builds the candidate in the model: (x, y, expected verdict)
fn build_g2(c: &Cand) -> Option<((Q2, Q2), bool)> {
    let r = model::r();
    let g2 = model::g2_gen();
    match c {
        Cand::G2Sub { k } => {
            let k = from_be(&unhex(k)) % r;
            small_mul(&g2, &k).map(|p| (p, true))
        }
        Cand::G2Small { k, j13, j1621 } => {
            let so = model::small_order();
            let k = from_be(&unhex(k)) % r;
            let mut p = small_mul(&g2, &k);
            p = padd(&p, &small_mul(&so.t13, &BigUint::from(*j13 % 13)));
            p = padd(&p, &small_mul(&so.t1621, &BigUint::from(*j1621 % 1621)));
            let in_g2 = *j13 % 13 == 0 && *j1621 % 1621 == 0;
            p.map(|p| (p, in_g2))
        }
        Cand::G2Twist { seed } => {
            let p = model::twist_point_from_seed(&q2_seed(seed));
            let ok = pmul(&Some(p.clone()), r).is_none();
            Some((p, ok))
        }
        Cand::G2Cleared { seed } => {
            let p = model::twist_point_from_seed(&q2_seed(seed));
            small_mul(&p, model::twist_cofactor()).map(|p| (p, true))
        }
        Cand::G2WrongB { seed, b } => {
            // point of y^2 = x^3 + b' (b' != 5u): off the twist unless by accident
            let bb = q2_seed(b);
            let mut x = q2_seed(seed);
            loop {
                let rhs = x.sqr().mul(&x).add(&bb);
                if let Some(y) = rhs.sqrt() {
                    let on = model::on_curve(&x, &y);
                    let ok = on && pmul(&Some((x.clone(), y.clone())), r).is_none();
                    return Some(((x, y), ok));
                }
                x = x.add(&Q2::one());
            }
        }
        Cand::G2Untwisted { k } => {
            let k = from_be(&unhex(k)) % r;
            let p = pmul(&Some(model::g1_gen()), &k)?;
            let x = Q2 { c0: p.0, c1: Q::zero() };
            let y = Q2 { c0: p.1, c1: Q::zero() };
            let ok = model::on_curve(&x, &y) && pmul(&Some((x.clone(), y.clone())), r).is_none();
            Some(((x, y), ok))
        }
        Cand::G2YPlus1 { k } => {
            let k = from_be(&unhex(k)) % r;
            let p = small_mul(&g2, &k)?;
            let y = p.1.add(&Q2::one());
            let ok = model::on_curve(&p.0, &y) && pmul(&Some((p.0.clone(), y.clone())), r).is_none();
            Some(((p.0, y), ok))
        }
        Cand::G2XPlus1 { k } => {
            let k = from_be(&unhex(k)) % r;
            let p = small_mul(&g2, &k)?;
            let x = p.0.add(&Q2::one());
            let ok = model::on_curve(&x, &p.1) && pmul(&Some((x.clone(), p.1.clone())), r).is_none();
            Some(((x, p.1), ok))
        }
        Cand::G2Scaled { k, lam } => {
            let k = from_be(&unhex(k)) % r;
            let p = small_mul(&g2, &k)?;
            let l = q2_seed(lam);
            if l.is_zero() {
                return None;
            }
            let l2 = l.sqr();
            let x = p.0.mul(&l2);
            let y = p.1.mul(&l2.mul(&l));
            let ok = model::on_curve(&x, &y) && pmul(&Some((x.clone(), y.clone())), r).is_none();
            Some(((x, y), ok))
        }
        Cand::G2Junk { x, y } => {
            let x = q2_seed(x);
            let y = q2_seed(y);
            let ok = model::on_curve(&x, &y) && pmul(&Some((x.clone(), y.clone())), r).is_none();
            Some(((x, y), ok))
        }
        _ => None,
    }
}

fn build_g1(c: &Cand) -> Option<((Q, Q), bool)> {
    let r = model::r();
    let g1 = model::g1_gen();
    match c {
        Cand::G1On { k, negate } => {
            let k = from_be(&unhex(k)) % r;
            let p = pmul(&Some(g1), &k)?;
            let p = if *negate { (p.0, p.1.neg()) } else { p };
            Some((p, true))
        }
        Cand::G1Boundary { x, y_odd } => {
            let x = Q::new(from_be(&unhex(x)));
            let (x, y) = model::g1_point_with_x(&x)?;
            let y = if y.is_odd() == *y_odd { y } else { y.neg() };
            Some(((x, y), true))
        }
        Cand::G1YPlus1 { k } => {
            let k = from_be(&unhex(k)) % r;
            let p = pmul(&Some(g1), &k)?;
            let y = p.1.add(&Q::one());
            let ok = model::on_curve(&p.0, &y);
            Some(((p.0, y), ok))
        }
        Cand::G1XPlus1 { k } => {
            let k = from_be(&unhex(k)) % r;
            let p = pmul(&Some(g1), &k)?;
            let x = p.0.add(&Q::one());
            let ok = model::on_curve(&x, &p.1);
            Some(((x, p.1), ok))
        }
        Cand::G1WrongB { x, b } => {
            let mut x = Q::new(from_be(&unhex(x)));
            // b < 100: that constant; b >= 100: 5 * zeta^(b-100), zeta a primitive 6th root of unity
            // (the quadratic, cubic and sextic twists of the curve itself)
            let bb = if *b >= 100 { Q::from_u64(5).mul(&Q(sixth_root_pow((*b - 100) as u32))) } else { Q::from_u64(*b) };
            loop {
                let rhs = x.sqr().mul(&x).add(&bb);
                if let Some(y) = rhs.sqrt() {
                    let ok = model::on_curve(&x, &y);
                    return Some(((x, y), ok));
                }
                x = x.add(&Q::one());
            }
        }
        Cand::G1Junk { x, y } => {
            let x = Q::new(from_be(&unhex(x)));
            let y = Q::new(from_be(&unhex(y)));
            let ok = model::on_curve(&x, &y);
            Some(((x, y), ok))
        }
        Cand::G1AimedY { y, delta } => {
            let q = model::q();
            let y = Q::new(from_be(&unhex(y)));
            let d = if *delta >= 0 { Q::from_u64(*delta as u64) } else { Q::from_u64((-*delta) as u64).neg() };
            let c = y.sqr().sub(&Q::from_u64(5)).sub(&d);
            // q = 4 mod 9: the cube root of a cubic residue c is c^((2q+1)/9)
            let e = ((q * 2u32) + 1u32) / 9u32;
            let x = Q(c.0.modpow(&e, q));
            if x.sqr().mul(&x) != c {
                return None;
            }
            let ok = model::on_curve(&x, &y);
            Some(((x, y), ok))
        }
        Cand::G1StoredNearMiss { x, variant, bit, li, lj } => {
            let q = model::q();
            let rr = BigUint::one() << 256;
            let rinv = model::minv(&(&rr % q), q).unwrap();
            let x = Q::new(from_be(&unhex(x)));
            let rhs = x.sqr().mul(&x).add(&Q::from_u64(5));
            let m = (&rhs.0 * &rr) % q;
            let (i, j) = ((*li % 4) as u32, (*lj % 4) as u32);
            let b = (*bit % 64) as u32;
            let m2 = match variant % 5 {
                0 => &m ^ (BigUint::one() << (64 * i + b)),
                1 => &m ^ (BigUint::one() << (64 * i + b)) ^ (BigUint::one() << (64 * ((i + 1 + j % 3) % 4) + b)),
                2 => &m + 1u32,
                3 => (&m + q - 1u32) % q,
                _ => &m ^ (BigUint::from(u64::MAX) << (64 * i)),
            } % q;
            let w = (&m2 * &rinv) % q;
            let y = Q(model::msqrt(&w, q)?);
            let ok = model::on_curve(&x, &y);
            Some(((x, y), ok))
        }
        _ => None,
    }
}

/// zeta^i for zeta a primitive 6th root of unity in Fq (q = 1 mod 6)
fn sixth_root_pow(i: u32) -> BigUint {
    let q = model::q();
    let e = (q - 1u32) / 6u32;
    let mut g = BigUint::from(2u32);
    loop {
        let z = g.modpow(&e, q);
        // primitive: z^3 = -1 and z^2 != 1
        if z.modpow(&BigUint::from(3u32), q) == q - 1u32 && z.modpow(&BigUint::from(2u32), q) != BigUint::one() {
            return z.modpow(&BigUint::from(i % 6), q);
        }
        g += 1u32;
    }
}

fn lib_fq(v: &Q) -> Fq {
    Fq::from_slice(&be32(&v.0)).expect("32 bytes")
}

fn lib_fq2(v: &Q2) -> Fq2 {
    Fq2::new(lib_fq(&v.c0), lib_fq(&v.c1))
}

pub fn exec9(spec: &Wire9Spec, prop: &str) -> RunResult {
    let mut res = RunResult::default();
    let mut dg = Digest::new();
    let budget = spec.budget * 8;
    for (step, c) in spec.ops.iter().enumerate() {
        res.steps += 1;
        let kind = c.kind();
        let mut outcome: Vec<u8> = Vec::new();
        let mut viol: Option<(String, String, String)> = None;
        // acceptors: validated constructor + every decoder of the group
        let mut verdicts: Vec<(String, Result<bool, String>)> = Vec::new();
        let expect: bool;
        if let Some(((x, y), ok)) = build_g2(c) {
            expect = ok;
            let raw = ref_encode(&(x.clone(), y.clone()), Fmt::Raw);
            let unc = ref_encode(&(x.clone(), y.clone()), Fmt::Unc);
            let cmp = ref_encode(&(x.clone(), y.clone()), Fmt::Cmp);
            verdicts.push(("AffineG2::new".into(), guarded(budget, || AffineG2::new(lib_fq2(&x), lib_fq2(&y)).is_ok())));
            verdicts.push(("G2::from_slice".into(), guarded(budget, || G2::from_slice(&raw).is_ok())));
            verdicts.push(("G2::from_uncompressed".into(), guarded(budget, || G2::from_uncompressed(&unc).is_ok())));
            // the compressed form denotes the same point only if the parity bit can select it
            let cmp_same = match ref_decode::<Q2>(&cmp, Fmt::Cmp, false) {
                Ok(p) => p == (x.clone(), y.clone()),
                Err(_) => false,
            };
            if cmp_same {
                verdicts.push(("G2::from_compressed".into(), guarded(budget, || G2::from_compressed(&cmp).is_ok())));
            }
        } else if let Some(((x, y), ok)) = build_g1(c) {
            expect = ok;
            let raw = ref_encode(&(x.clone(), y.clone()), Fmt::Raw);
            let unc = ref_encode(&(x.clone(), y.clone()), Fmt::Unc);
            verdicts.push(("AffineG1::new".into(), guarded(budget, || AffineG1::new(lib_fq(&x), lib_fq(&y)).is_ok())));
            verdicts.push(("G1::from_slice".into(), guarded(budget, || G1::from_slice(&raw).is_ok())));
            verdicts.push(("G1::from_uncompressed".into(), guarded(budget, || G1::from_uncompressed(&unc).is_ok())));
        } else {
            res.count("candidate_degenerate");
            dg.u64(step as u64);
            res.step_digests.push(dg.0);
            continue;
        }
        res.count(&format!("fault_fired:{}", kind));
        res.count(if expect { "expected_accept" } else { "expected_reject" });
        for (name, v) in verdicts {
            res.reach(format!("{}|{}|{}", name, kind, if expect { "accept" } else { "reject" }));
            match v {
                Err(msg) => {
                    res.panics.push((step, msg.clone()));
                    outcome.extend_from_slice(msg.as_bytes());
                    viol = Some(("I09.3".into(), name.clone(), format!("{} did not return normally on a {} candidate: {}", name, kind, short(&msg))));
                    break;
                }
                Ok(acc) => {
                    outcome.push(acc as u8);
                    if acc != expect {
                        let inv = if name.starts_with("AffineG1") || name.starts_with("G1") { "I09.1" } else { "I09.2" };
                        viol = Some((
                            inv.into(),
                            name.clone(),
                            format!("{} {} a {} candidate that must be {}", name, if acc { "accepted" } else { "rejected" }, kind, if expect { "accepted" } else { "rejected" }),
                        ));
                        break;
                    }
                }
            }
        }
        dg.u64(step as u64);
        dg.bytes(&outcome);
        res.step_digests.push(dg.0);
        if let Some((inv, name, detail)) = viol {
            res.violation = Some(Violation {
                property: prop.to_string(),
                invariant: inv.clone(),
                step,
                signature: format!("{}|{}|acceptor={}|kind={}", prop, inv, name, kind),
                detail: format!("{} [candidate {}]", detail, serde_json::to_string(c).unwrap()),
            });
            break;
        }
    }
    res.fingerprint = dg.0;
    res
}

fn small_k(pr: &mut Prng) -> BigUint {
    // subgroup components are mostly small multiples (cheap in the reference), sometimes full
    match pr.below(8) {
        0 => from_be(&pr.bytes(32)) % model::r(),
        1 => model::r() - 1u32 - pr.below(3),
        2 => BigUint::one() << (pr.below(40) as u32),
        _ => BigUint::from(1 + pr.below(4096)),
    }
}

pub const ENUM9: u64 = 1634 + 12 * 1620;

/// C09 run `index`: the small-order components are enumerated by index so that a batch of
/// >= 1634 runs in a tier covers every j*T13 and every j*T1621 at least once.
pub fn generate9(seed: u64, index: u64) -> Wire9Spec {
    let mut pr = Prng::split(seed, "prog");
    let hk = |pr: &mut Prng| hex(&be32(&small_k(pr)));
    let mut ops = Vec::new();
    // enumerated part: indices 0..13 -> j*T13, 13..1634 -> j*T1621, 1634..22707 -> every
    // mixed pair (j13, j1621) with both parts non-zero (12 * 1620 = 19440) ... then wraps
    let e = index % ENUM9;
    let (j13, j1621) = if e < 13 {
        (e as u32, 0u32)
    } else if e < 1634 {
        (0u32, (e - 13) as u32)
    } else {
        let m = e - 1634;
        (1 + (m % 12) as u32, 1 + (m / 12) as u32)
    };
    ops.push(Cand::G2Small { k: hk(&mut pr), j13, j1621 });
    // the pure small-order point (k = 0) with the same components every other index
    if index % 2 == 0 {
        ops.push(Cand::G2Small { k: hex(&[0u8; 32]), j13, j1621 });
    }
    // seeded part
    let n = 3 + pr.usize_below(5);
    for _ in 0..n {
        let c = match pr.below(20) {
            0 => Cand::G2Sub { k: hk(&mut pr) },
            1 | 2 => Cand::G2Small { k: hk(&mut pr), j13: pr.below(13) as u32, j1621: pr.below(1621) as u32 },
            3 => Cand::G2Twist { seed: hex(&pr.bytes(64)) },
            4 => {
                if pr.chance(1, 4) {
                    Cand::G2Cleared { seed: hex(&pr.bytes(64)) }
                } else {
                    Cand::G2Sub { k: hk(&mut pr) }
                }
            }
            5 => {
                if pr.chance(1, 2) {
                    Cand::G2WrongB { seed: hex(&pr.bytes(64)), b: hex(&pr.bytes(64)) }
                } else {
                    // b' = 5u * zeta^i (i = 1..5): the other twists of the twist; imaginary part first
                    let z = sixth_root_pow(1 + pr.below(5) as u32);
                    let im = (BigUint::from(5u32) * z) % model::q();
                    let mut b = be32(&im).to_vec();
                    b.extend_from_slice(&[0u8; 32]);
                    Cand::G2WrongB { seed: hex(&pr.bytes(64)), b: hex(&b) }
                }
            }
            6 => Cand::G2Untwisted { k: hk(&mut pr) },
            7 => Cand::G2YPlus1 { k: hk(&mut pr) },
            8 => Cand::G2XPlus1 { k: hk(&mut pr) },
            9 => {
                if pr.chance(1, 4) {
                    // degenerate pairs: (0,0), (0,1), (1,0)
                    let z = hex(&[0u8; 64]);
                    let mut ob = vec![0u8; 64];
                    ob[63] = 1;
                    let o = hex(&ob);
                    match pr.below(3) {
                        0 => Cand::G2Junk { x: z.clone(), y: z },
                        1 => Cand::G2Junk { x: z, y: o },
                        _ => Cand::G2Junk { x: o, y: z },
                    }
                } else if pr.chance(1, 2) {
                    Cand::G2Junk { x: hex(&pr.bytes(64)), y: hex(&pr.bytes(64)) }
                } else {
                    let mut lam = pr.bytes(64);
                    if pr.chance(1, 3) {
                        // real lambda (imaginary half zero)
                        for b in lam[..32].iter_mut() {
                            *b = 0;
                        }
                    }
                    Cand::G2Scaled { k: hk(&mut pr), lam: hex(&lam) }
                }
            }
            10 => Cand::G1On { k: hk(&mut pr), negate: pr.chance(1, 2) },
            11 => {
                let fx = boundary_x(&mut pr);
                Cand::G1Boundary { x: fx.x, y_odd: fx.y_odd }
            }
            12 => Cand::G1YPlus1 { k: hk(&mut pr) },
            13 => Cand::G1XPlus1 { k: hk(&mut pr) },
            14 | 15 => Cand::G1WrongB { x: hex(&pr.bytes(32)), b: *pr.pick(&[0u64, 1, 2, 3, 4, 6, 7, 10, 101, 102, 103, 104, 105, 101, 102, 104]) },
            16 | 17 => match pr.below(3) {
                0 => {
                    if pr.chance(1, 3) {
                        // degenerate pairs: (0,0), (0,1), (1,0), (0, sqrt 5), ...
                        let z = hex(&[0u8; 32]);
                        let o = hex(&be32(&BigUint::one()));
                        match pr.below(3) {
                            0 => Cand::G1Junk { x: z.clone(), y: z },
                            1 => Cand::G1Junk { x: z, y: o },
                            _ => Cand::G1Junk { x: o, y: z },
                        }
                    } else {
                        Cand::G1Junk { x: hex(&pr.bytes(32)), y: hex(&pr.bytes(32)) }
                    }
                }
                1 => {
                    // y whose square has chosen stored limbs W: y = sqrt(W * R^-1)
                    let q = model::q();
                    let rr = BigUint::one() << 256;
                    let rinv = model::minv(&(&rr % q), q).unwrap();
                    let mut yv = BigUint::from(2u32);
                    for _ in 0..16 {
                        let wl = match pr.below(4) {
                            0 | 1 => ((&rr - q) + crate::world_fld::limb_sparse(&mut pr, 3)) % q,
                            2 => crate::world_fld::limb_sparse(&mut pr, 3) % q,
                            _ => crate::world_fld::limb_patterns(&mut pr, q) % q,
                        };
                        if let Some(r) = model::msqrt(&((&wl * &rinv) % q), q) {
                            yv = r;
                            break;
                        }
                    }
                    Cand::G1AimedY { y: hex(&be32(&yv)), delta: *pr.pick(&[1i32, -1, 2, -2, 3, -5]) }
                }
                _ => Cand::G1StoredNearMiss {
                    x: hex(&be32(&BigUint::from(1 + pr.below(1 << 20)))),
                    variant: pr.below(5) as u8,
                    bit: pr.below(64) as u8,
                    li: pr.below(4) as u8,
                    lj: pr.below(4) as u8,
                },
            },
            _ => Cand::G2Small { k: hk(&mut pr), j13: pr.below(13) as u32, j1621: 0 },
        };
        // a near miss is followed by the genuine point with the same x (and its negative): a
        // verdict must not depend on what was offered just before
        let follow = match &c {
            Cand::G2YPlus1 { k } => Some(vec![Cand::G2Sub { k: k.clone() }]),
            Cand::G1YPlus1 { k } => Some(vec![Cand::G1On { k: k.clone(), negate: false }, Cand::G1On { k: k.clone(), negate: true }]),
            _ => None,
        };
        ops.push(c);
        if let Some(f) = follow {
            ops.extend(f);
        }
    }
    Wire9Spec { budget: DEFAULT_BUDGET, ops }
}

// ---------------------------------------------------------------------------------------
// C10: intact channel, format conformance and round trip

#[derive(Clone, Debug, Serialize, Deserialize)]
pub struct Wire10Spec {
    pub g: Grp,
    pub k: String,
    #[serde(default)]
    pub from_x: Option<FromX>,
    /// before each encoding, make unrelated library calls on field elements that share their
    /// STORED limbs with the representative's z coordinates (Fr and Fq inversions, products):
    /// the encodings must not depend on what the library was asked before
    #[serde(default)]
    pub interfere: bool,
    pub budget: u64,
    /// representatives from which the value is sent
    pub ops: Vec<Repr>,
}

/// reference affine coordinates of a library value, computed in the model from the Jacobian
/// triple read through the public accessors (x/z^2, y/z^3); None for z = 0
fn model_affine<G: LibG, F: RF>(p: &G) -> Option<(F, F)> {
    let (x, y, z) = p.jac_coords();
    let x = F::from_parts(&x)?;
    let y = F::from_parts(&y)?;
    let z = F::from_parts(&z)?;
    let zi = z.inv()?;
    let zi2 = zi.sqr();
    Some((x.mul(&zi2), y.mul(&zi2.mul(&zi))))
}

/// unrelated calls on Fr / Fq elements that have the given stored limbs (results discarded)
fn interference(limbs: &[[u64; 4]]) {
    let rr = BigUint::one() << 256;
    for l in limbs {
        let lv = crate::world_fld::limbs_to_big(l);
        for (is_r, p) in [(true, model::r()), (false, model::q())] {
            let rinv = model::minv(&(&rr % p), p).unwrap();
            let v = ((&lv % p) * rinv) % p;
            if is_r {
                if let Some(e) = sm9_core::Fr::from_slice(&be32(&v)) {
                    let _ = e.inverse();
                    let _ = e * e;
                }
            } else if let Some(e) = Fq::from_slice(&be32(&v)) {
                let _ = e.inverse();
                let _ = e * e;
                let _ = e.sqrt();
            }
        }
    }
}

fn round_trip<G: LibG, F: RF>(k: &BigUint, from_x: &Option<FromX>, interfere: bool, reprs: &[Repr], budget: u64, prop: &str, res: &mut RunResult, dg: &mut Digest) {
    let mut first: Option<((F, F), Vec<Vec<u8>>)> = None;
    for (step, repr) in reprs.iter().enumerate() {
        res.steps += 1;
        let mut outcome: Vec<u8> = Vec::new();
        let mut parity = "none";
        let mut abandoned = false;
        let r = guarded(budget * 16, || -> Check {
            let p: G = make_repr::<G>(k, from_x, repr);
            // the oracle: SM9 encoding of P's own affine coordinates, computed in the model
            // from the representative's Jacobian triple. It does not depend on whether the
            // library's group arithmetic produced the "right" multiple (that is C16/C05).
            let mp: (F, F) = match model_affine::<G, F>(&p) {
                Some(m) => m,
                None => {
                    abandoned = true;
                    return Ok(());
                }
            };
            if !model::on_curve(&mp.0, &mp.1) {
                // not a point of the group: outside C10's quantifier
                abandoned = true;
                return Ok(());
            }
            parity = if mp.1.is_odd() { "odd" } else { "even" };
            let refs: Vec<Vec<u8>> = FMTS.iter().map(|f| ref_encode(&mp, *f)).collect();
            if interfere {
                interference(&p.z_limbs());
            }
            let mut encs = Vec::new();
            for (fi, fmt) in FMTS.iter().enumerate() {
                let e = p.enc(*fmt);
                if e != refs[fi] {
                    return Err((
                        "I10.1".into(),
                        format!("{} {} encoding of {}*generator sent as '{}' is not the SM9 format of its affine coordinates: got {} want {}", G::NAME, fmt.name(), hex(&be32(k)), repr.name(), hex(&e), hex(&refs[fi])),
                    ));
                }
                match G::dec(&e, *fmt) {
                    Err(err) => {
                        return Err(("I10.3".into(), format!("{} {} decoder rejected the intact encoding of {}*generator ('{}'): {}", G::NAME, fmt.name(), hex(&be32(k)), repr.name(), err)));
                    }
                    Ok(d) => {
                        if !(d == p) || !(p == d) {
                            return Err(("I10.3".into(), format!("{} {}: decode(encode(P)) != P for {}*generator ('{}')", G::NAME, fmt.name(), hex(&be32(k)), repr.name())));
                        }
                        // the decoded value denotes the same affine point in the model too
                        if model_affine::<G, F>(&d) != Some(mp.clone()) {
                            return Err(("I10.3".into(), format!("{} {}: the decoded value is not the point that was encoded, for {}*generator ('{}')", G::NAME, fmt.name(), hex(&be32(k)), repr.name())));
                        }
                        if d.enc(*fmt) != e {
                            return Err(("I10.3".into(), format!("{} {}: re-encoding the decoded point differs for {}*generator", G::NAME, fmt.name(), hex(&be32(k)))));
                        }
                        // the decoded value is one more representative of P: all its encodings,
                        // not only the format it arrived in, are those of P's affine coordinates
                        for (fj, f2) in FMTS.iter().enumerate() {
                            if d.enc(*f2) != refs[fj] {
                                return Err(("I10.3".into(), format!("{}: the value decoded from the {} format re-encodes in the {} format to something other than the SM9 format of its point, for {}*generator ('{}')", G::NAME, fmt.name(), f2.name(), hex(&be32(k)), repr.name())));
                            }
                        }
                    }
                }
                encs.push(e);
            }
            match &first {
                Some((fp, fe)) => {
                    // only representatives of the same point (in the model) are compared
                    if *fp == mp && *fe != encs {
                        return Err(("I10.2".into(), format!("{} encodings of {}*generator depend on the representative ('{}' vs first)", G::NAME, hex(&be32(k)), repr.name())));
                    }
                }
                None => first = Some((mp, encs)),
            }
            Ok(())
        });
        if abandoned {
            res.count("representative_not_a_group_point");
        }
        if parity != "none" {
            res.count(&format!("{}_parity_{}", G::NAME, parity));
            res.reach(format!("{}|{}|parity={}", G::NAME, repr.name(), parity));
        }
        let viol = match r {
            Err(msg) => {
                res.panics.push((step, msg.clone()));
                outcome.extend_from_slice(msg.as_bytes());
                Some(("I10.3".to_string(), format!("encoding/decoding {}*generator ('{}') did not return normally: {}", hex(&be32(k)), repr.name(), short(&msg))))
            }
            Ok(Err(e)) => Some(e),
            Ok(Ok(())) => {
                outcome.push(1);
                None
            }
        };
        dg.u64(step as u64);
        dg.bytes(&outcome);
        res.step_digests.push(dg.0);
        if let Some((inv, detail)) = viol {
            res.violation = Some(Violation {
                property: prop.to_string(),
                invariant: inv.clone(),
                step,
                signature: format!("{}|{}|group={}|repr={}", prop, inv, G::NAME, repr.name()),
                detail,
            });
            return;
        }
    }
}

pub fn exec10(spec: &Wire10Spec, prop: &str) -> RunResult {
    let mut res = RunResult::default();
    let mut dg = Digest::new();
    let r = model::r();
    let k = from_be(&unhex(&spec.k)) % r;
    let k = if k.is_zero() { BigUint::one() } else { k };
    match spec.g {
        Grp::G1 => round_trip::<G1, Q>(&k, &spec.from_x, spec.interfere, &spec.ops, spec.budget, prop, &mut res, &mut dg),
        Grp::G2 => round_trip::<G2, Q2>(&k, &None, spec.interfere, &spec.ops, spec.budget, prop, &mut res, &mut dg),
    }
    res.fingerprint = dg.0;
    res
}

pub fn generate10(seed: u64, index: u64) -> Wire10Spec {
    let mut pr = Prng::split(seed, "prog");
    let g = if index % 2 == 0 { Grp::G1 } else { Grp::G2 };
    let mut k = alphabet_scalar(&mut pr);
    if k.is_zero() {
        k = BigUint::from(7u32);
    }
    let mut ops = vec![Repr::Norm, Repr::Jac];
    let r = model::r();
    ops.push(Repr::Sum(hex(&be32(&((from_be(&pr.bytes(32)) % (r - 3u32)) + 1u32)))));
    ops.push(Repr::Rescaled(gen_lambda(&mut pr, g)));
    if pr.chance(1, 2) {
        ops.push(Repr::Rescaled(gen_lambda(&mut pr, g)));
    }
    ops.push(Repr::AffineRt);
    {
        let q = model::q();
        let t = match pr.below(5) {
            0 | 1 => BigUint::one(),
            2 => q - 1u32,
            _ => crate::world_grp::special_fq(&mut pr),
        };
        ops.push(Repr::AimCoord { which: pr.below(2) as u8, target: hex(&be32(&t)) });
    }
    ops.push(pr.pick(&[Repr::NegNeg, Repr::Doubled, Repr::PlusId { left: true }, Repr::PlusId { left: false }]).clone());
    let from_x = if g == Grp::G1 && pr.chance(1, 4) { Some(boundary_x(&mut pr)) } else { None };
    let interfere = pr.chance(1, 3);
    Wire10Spec { g, k: hex(&be32(&k)), from_x, interfere, budget: DEFAULT_BUDGET, ops }
}
