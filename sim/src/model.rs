//! Reference model, written from the SM9 standard on `num_bigint::BigUint`. It shares no code
//! with sm9_core: plain integers mod q / mod r, Fq2 = Fq[u]/(u^2+2), textbook affine
//! chord-and-tangent law with a symbolic point at infinity, double-and-add, Tonelli-Shanks
//! square roots, and the SM9 byte formats as a reference codec.

use num_bigint::BigUint;
use num_traits::{One, Zero};
use std::sync::OnceLock;

pub fn hex_big(s: &str) -> BigUint {
    let clean: String = s.chars().filter(|c| !c.is_whitespace()).collect();
    BigUint::parse_bytes(clean.as_bytes(), 16).expect("hex constant")
}

pub fn q() -> &'static BigUint {
    static V: OnceLock<BigUint> = OnceLock::new();
    V.get_or_init(|| hex_big("B640000002A3A6F1D603AB4FF58EC74521F2934B1A7AEEDBE56F9B27E351457D"))
}

pub fn r() -> &'static BigUint {
    static V: OnceLock<BigUint> = OnceLock::new();
    V.get_or_init(|| hex_big("B640000002A3A6F1D603AB4FF58EC74449F2934B18EA8BEEE56EE19CD69ECF25"))
}

/// order of the sextic twist E'(Fq2): r * (2q - r)
pub fn twist_order() -> &'static BigUint {
    static V: OnceLock<BigUint> = OnceLock::new();
    V.get_or_init(|| r() * twist_cofactor())
}

pub fn twist_cofactor() -> &'static BigUint {
    static V: OnceLock<BigUint> = OnceLock::new();
    V.get_or_init(|| (q() + q()) - r())
}

pub fn be32(x: &BigUint) -> [u8; 32] {
    let b = x.to_bytes_be();
    assert!(b.len() <= 32, "be32: value does not fit");
    let mut out = [0u8; 32];
    out[32 - b.len()..].copy_from_slice(&b);
    out
}

pub fn from_be(b: &[u8]) -> BigUint {
    BigUint::from_bytes_be(b)
}

pub fn hex(b: &[u8]) -> String {
    let mut s = String::with_capacity(b.len() * 2);
    for x in b {
        s.push_str(&format!("{:02x}", x));
    }
    s
}

pub fn unhex(s: &str) -> Vec<u8> {
    let s: Vec<u8> = s.bytes().filter(|c| !c.is_ascii_whitespace()).collect();
    assert!(s.len() % 2 == 0, "odd hex length");
    (0..s.len() / 2)
        .map(|i| u8::from_str_radix(std::str::from_utf8(&s[2 * i..2 * i + 2]).unwrap(), 16).unwrap())
        .collect()
}

// ---------------------------------------------------------------------------------------
// integers modulo p

pub fn madd(a: &BigUint, b: &BigUint, p: &BigUint) -> BigUint {
    (a + b) % p
}
pub fn msub(a: &BigUint, b: &BigUint, p: &BigUint) -> BigUint {
    ((a % p) + p - (b % p)) % p
}
pub fn mmul(a: &BigUint, b: &BigUint, p: &BigUint) -> BigUint {
    (a * b) % p
}
pub fn mneg(a: &BigUint, p: &BigUint) -> BigUint {
    (p - (a % p)) % p
}
pub fn mpow(a: &BigUint, e: &BigUint, p: &BigUint) -> BigUint {
    a.modpow(e, p)
}
pub fn minv(a: &BigUint, p: &BigUint) -> Option<BigUint> {
    let a = a % p;
    if a.is_zero() {
        None
    } else {
        Some(a.modpow(&(p - 2u32), p))
    }
}
/// Euler criterion (p odd prime); zero counts as a square
pub fn is_square_mod(a: &BigUint, p: &BigUint) -> bool {
    let a = a % p;
    if a.is_zero() {
        return true;
    }
    a.modpow(&((p - 1u32) >> 1), p).is_one()
}

/// Tonelli-Shanks (generic; deliberately not the q = 5 mod 8 shortcut the library uses)
pub fn msqrt(a: &BigUint, p: &BigUint) -> Option<BigUint> {
    let a = a % p;
    if a.is_zero() {
        return Some(BigUint::zero());
    }
    if !is_square_mod(&a, p) {
        return None;
    }
    // p - 1 = s * 2^e
    let mut s = p - 1u32;
    let mut e = 0u32;
    while (&s & BigUint::one()).is_zero() {
        s >>= 1;
        e += 1;
    }
    // find non-residue
    let mut z = BigUint::from(2u32);
    while is_square_mod(&z, p) {
        z += 1u32;
    }
    let mut m = e;
    let mut c = z.modpow(&s, p);
    let mut t = a.modpow(&s, p);
    let mut rr = a.modpow(&((&s + 1u32) >> 1), p);
    while !t.is_one() {
        // least i with t^(2^i) = 1
        let mut i = 0u32;
        let mut tt = t.clone();
        while !tt.is_one() {
            tt = (&tt * &tt) % p;
            i += 1;
        }
        let mut b = c.clone();
        for _ in 0..(m - i - 1) {
            b = (&b * &b) % p;
        }
        m = i;
        c = (&b * &b) % p;
        t = (&t * &c) % p;
        rr = (&rr * &b) % p;
    }
    debug_assert_eq!((&rr * &rr) % p, a);
    Some(rr)
}

// ---------------------------------------------------------------------------------------
// reference fields for the curves

pub trait RF: Clone + PartialEq + std::fmt::Debug {
    const BYTES: usize;
    fn zero() -> Self;
    fn one() -> Self;
    fn from_u64(v: u64) -> Self;
    fn is_zero(&self) -> bool;
    fn add(&self, o: &Self) -> Self;
    fn sub(&self, o: &Self) -> Self;
    fn mul(&self, o: &Self) -> Self;
    fn neg(&self) -> Self;
    fn inv(&self) -> Option<Self>;
    fn sqrt(&self) -> Option<Self>;
    /// coefficient b of y^2 = x^3 + b for the curve over this field
    fn curve_b() -> Self;
    /// SM9 byte encoding (big-endian; imaginary part first for Fq2)
    fn to_bytes(&self) -> Vec<u8>;
    /// strict decoding: exactly BYTES bytes, every 32-byte coordinate < q
    fn from_bytes(b: &[u8]) -> Option<Self>;
    /// parity used by the compressed format: canonical value (real part for Fq2) is odd
    fn is_odd(&self) -> bool;
    /// from canonical 32-byte coordinates, real part first (1 part for Fq, 2 for Fq2)
    fn from_parts(parts: &[[u8; 32]]) -> Option<Self>;
    /// a cube root, when the field supports it here (Fq: q = 4 mod 9) and one exists
    fn cbrt(&self) -> Option<Self>;
    fn sqr(&self) -> Self {
        self.mul(self)
    }
}

#[derive(Clone, PartialEq, Eq, Debug, PartialOrd, Ord)]
pub struct Q(pub BigUint);

impl Q {
    pub fn new(v: BigUint) -> Q {
        Q(v % q())
    }
}

impl RF for Q {
    const BYTES: usize = 32;
    fn zero() -> Self {
        Q(BigUint::zero())
    }
    fn one() -> Self {
        Q(BigUint::one())
    }
    fn from_u64(v: u64) -> Self {
        Q(BigUint::from(v))
    }
    fn is_zero(&self) -> bool {
        self.0.is_zero()
    }
    fn add(&self, o: &Self) -> Self {
        Q(madd(&self.0, &o.0, q()))
    }
    fn sub(&self, o: &Self) -> Self {
        Q(msub(&self.0, &o.0, q()))
    }
    fn mul(&self, o: &Self) -> Self {
        Q(mmul(&self.0, &o.0, q()))
    }
    fn neg(&self) -> Self {
        Q(mneg(&self.0, q()))
    }
    fn inv(&self) -> Option<Self> {
        minv(&self.0, q()).map(Q)
    }
    fn sqrt(&self) -> Option<Self> {
        msqrt(&self.0, q()).map(Q)
    }
    fn curve_b() -> Self {
        Q(BigUint::from(5u32))
    }
    fn to_bytes(&self) -> Vec<u8> {
        be32(&self.0).to_vec()
    }
    fn from_bytes(b: &[u8]) -> Option<Self> {
        if b.len() != 32 {
            return None;
        }
        let v = from_be(b);
        if &v < q() {
            Some(Q(v))
        } else {
            None
        }
    }
    fn is_odd(&self) -> bool {
        self.0.bit(0)
    }
    fn from_parts(parts: &[[u8; 32]]) -> Option<Self> {
        if parts.len() != 1 {
            return None;
        }
        Q::from_bytes(&parts[0])
    }
    fn cbrt(&self) -> Option<Self> {
        let e = ((q() * 2u32) + 1u32) / 9u32;
        let x = Q(self.0.modpow(&e, q()));
        if x.sqr().mul(&x) == *self {
            Some(x)
        } else {
            None
        }
    }
}

/// c0 + c1*u with u^2 = -2
#[derive(Clone, PartialEq, Eq, Debug, PartialOrd, Ord)]
pub struct Q2 {
    pub c0: Q,
    pub c1: Q,
}

impl Q2 {
    pub fn new(c0: BigUint, c1: BigUint) -> Q2 {
        Q2 { c0: Q::new(c0), c1: Q::new(c1) }
    }
    pub fn norm(&self) -> Q {
        // (c0 + c1 u)(c0 - c1 u) = c0^2 + 2 c1^2
        let t = self.c1.sqr();
        self.c0.sqr().add(&t.add(&t))
    }
    pub fn is_square(&self) -> bool {
        if self.is_zero() {
            return true;
        }
        is_square_mod(&self.norm().0, q())
    }
}

impl RF for Q2 {
    const BYTES: usize = 64;
    fn zero() -> Self {
        Q2 { c0: Q::zero(), c1: Q::zero() }
    }
    fn one() -> Self {
        Q2 { c0: Q::one(), c1: Q::zero() }
    }
    fn from_u64(v: u64) -> Self {
        Q2 { c0: Q::from_u64(v), c1: Q::zero() }
    }
    fn is_zero(&self) -> bool {
        self.c0.is_zero() && self.c1.is_zero()
    }
    fn add(&self, o: &Self) -> Self {
        Q2 { c0: self.c0.add(&o.c0), c1: self.c1.add(&o.c1) }
    }
    fn sub(&self, o: &Self) -> Self {
        Q2 { c0: self.c0.sub(&o.c0), c1: self.c1.sub(&o.c1) }
    }
    fn mul(&self, o: &Self) -> Self {
        // (a0 + a1 u)(b0 + b1 u) = a0 b0 - 2 a1 b1 + (a0 b1 + a1 b0) u
        let a0b0 = self.c0.mul(&o.c0);
        let a1b1 = self.c1.mul(&o.c1);
        let two = a1b1.add(&a1b1);
        Q2 {
            c0: a0b0.sub(&two),
            c1: self.c0.mul(&o.c1).add(&self.c1.mul(&o.c0)),
        }
    }
    fn neg(&self) -> Self {
        Q2 { c0: self.c0.neg(), c1: self.c1.neg() }
    }
    fn inv(&self) -> Option<Self> {
        let n = self.norm().inv()?;
        Some(Q2 { c0: self.c0.mul(&n), c1: self.c1.neg().mul(&n) })
    }
    fn sqrt(&self) -> Option<Self> {
        if self.is_zero() {
            return Some(Self::zero());
        }
        if !self.is_square() {
            return None;
        }
        let two_inv = Q::from_u64(2).inv().unwrap();
        if self.c1.is_zero() {
            // a real: either sqrt(a) real, or a = (c u)^2 = -2 c^2
            if let Some(s) = self.c0.sqrt() {
                return Some(Q2 { c0: s, c1: Q::zero() });
            }
            let c2 = self.c0.neg().mul(&two_inv);
            let c = c2.sqrt()?;
            let cand = Q2 { c0: Q::zero(), c1: c };
            debug_assert_eq!(cand.sqr(), *self);
            return Some(cand);
        }
        // (x + y u)^2 = x^2 - 2 y^2 + 2 x y u ; with n = sqrt(norm): x^2 = (a +- n)/2
        let n = self.norm().sqrt()?;
        for cand_x2 in [self.c0.add(&n).mul(&two_inv), self.c0.sub(&n).mul(&two_inv)] {
            if let Some(x) = cand_x2.sqrt() {
                if x.is_zero() {
                    continue;
                }
                let y = self.c1.mul(&x.add(&x).inv().unwrap());
                let cand = Q2 { c0: x, c1: y };
                if cand.sqr() == *self {
                    return Some(cand);
                }
            }
        }
        None
    }
    fn curve_b() -> Self {
        Q2 { c0: Q::zero(), c1: Q::from_u64(5) }
    }
    fn to_bytes(&self) -> Vec<u8> {
        let mut v = self.c1.to_bytes();
        v.extend_from_slice(&self.c0.to_bytes());
        v
    }
    fn from_bytes(b: &[u8]) -> Option<Self> {
        if b.len() != 64 {
            return None;
        }
        let c1 = Q::from_bytes(&b[..32])?;
        let c0 = Q::from_bytes(&b[32..])?;
        Some(Q2 { c0, c1 })
    }
    fn is_odd(&self) -> bool {
        self.c0.is_odd()
    }
    fn from_parts(parts: &[[u8; 32]]) -> Option<Self> {
        if parts.len() != 2 {
            return None;
        }
        Some(Q2 { c0: Q::from_bytes(&parts[0])?, c1: Q::from_bytes(&parts[1])? })
    }
    fn cbrt(&self) -> Option<Self> {
        None
    }
}

// ---------------------------------------------------------------------------------------
// affine curve arithmetic, y^2 = x^3 + b, point at infinity = None

pub type Pt<F> = Option<(F, F)>;

pub fn on_curve<F: RF>(x: &F, y: &F) -> bool {
    y.sqr() == x.sqr().mul(x).add(&F::curve_b())
}

pub fn pneg<F: RF>(p: &Pt<F>) -> Pt<F> {
    p.as_ref().map(|(x, y)| (x.clone(), y.neg()))
}

pub fn pdbl<F: RF>(p: &Pt<F>) -> Pt<F> {
    let (x, y) = match p {
        None => return None,
        Some(v) => v,
    };
    if y.is_zero() {
        return None;
    }
    let three = F::from_u64(3);
    let lam = three.mul(&x.sqr()).mul(&y.add(y).inv().unwrap());
    let x3 = lam.sqr().sub(x).sub(x);
    let y3 = lam.mul(&x.sub(&x3)).sub(y);
    Some((x3, y3))
}

pub fn padd<F: RF>(p: &Pt<F>, o: &Pt<F>) -> Pt<F> {
    let (x1, y1) = match p {
        None => return o.clone(),
        Some(v) => v,
    };
    let (x2, y2) = match o {
        None => return p.clone(),
        Some(v) => v,
    };
    if x1 == x2 {
        if y1 == y2 {
            return pdbl(p);
        }
        return None;
    }
    let lam = y2.sub(y1).mul(&x2.sub(x1).inv().unwrap());
    let x3 = lam.sqr().sub(x1).sub(x2);
    let y3 = lam.mul(&x1.sub(&x3)).sub(y1);
    Some((x3, y3))
}

pub fn pmul<F: RF>(p: &Pt<F>, k: &BigUint) -> Pt<F> {
    let mut acc: Pt<F> = None;
    let bits = k.bits();
    for i in (0..bits).rev() {
        acc = pdbl(&acc);
        if k.bit(i) {
            acc = padd(&acc, p);
        }
    }
    acc
}

pub fn g1_gen() -> (Q, Q) {
    (
        Q(hex_big("93DE051D62BF718FF5ED0704487D01D6E1E4086909DC3280E8C4E4817C66DDDD")),
        Q(hex_big("21FE8DDA4F21E60763106512 5C395BBC1C1C00CBFA6024350C464CD70A3EA616")),
    )
}

pub fn g2_gen() -> (Q2, Q2) {
    // standard: x = (x1, x0) = x1*u + x0 printed high part first
    let x = Q2 {
        c1: Q(hex_big("85AEF3D078640C98597B6027B441A01FF1DD2C190F5E93C454806C11D8806141")),
        c0: Q(hex_big("3722755292130B08D2AAB97FD34EC120EE265948D19C17ABF9B7213BAF82D65B")),
    };
    let y = Q2 {
        c1: Q(hex_big("17509B092E845C1266BA0D262CBEE6ED0736A96FA347C8BD856DC76B84EBEB96")),
        c0: Q(hex_big("A7CF28D519BE3DA65F3170153D278FF247EFBA98A71A08116215BBA5C999A7C7")),
    };
    (x, y)
}

// ---------------------------------------------------------------------------------------
// reference codec

#[derive(Clone, Copy, PartialEq, Eq, Debug, serde::Serialize, serde::Deserialize, PartialOrd, Ord)]
pub enum Fmt {
    Raw,
    Unc,
    Cmp,
}

pub const FMTS: [Fmt; 3] = [Fmt::Raw, Fmt::Unc, Fmt::Cmp];

impl Fmt {
    pub fn name(&self) -> &'static str {
        match self {
            Fmt::Raw => "raw",
            Fmt::Unc => "unc",
            Fmt::Cmp => "cmp",
        }
    }
    pub fn len<F: RF>(&self) -> usize {
        match self {
            Fmt::Raw => 2 * F::BYTES,
            Fmt::Unc => 2 * F::BYTES + 1,
            Fmt::Cmp => F::BYTES + 1,
        }
    }
}

pub fn ref_encode<F: RF>(p: &(F, F), fmt: Fmt) -> Vec<u8> {
    let mut v = Vec::new();
    match fmt {
        Fmt::Raw => {
            v.extend_from_slice(&p.0.to_bytes());
            v.extend_from_slice(&p.1.to_bytes());
        }
        Fmt::Unc => {
            v.push(4);
            v.extend_from_slice(&p.0.to_bytes());
            v.extend_from_slice(&p.1.to_bytes());
        }
        Fmt::Cmp => {
            v.push(if p.1.is_odd() { 3 } else { 2 });
            v.extend_from_slice(&p.0.to_bytes());
        }
    }
    v
}

/// Why the reference rejected (or that it accepted); used for reach counting only.
#[derive(Clone, Copy, PartialEq, Eq, Debug, PartialOrd, Ord)]
pub enum RefExit {
    Ok,
    Length,
    Prefix,
    Range,
    NoRoot,
    OffCurve,
    Parity,
    Subgroup,
}

impl RefExit {
    pub fn name(&self) -> &'static str {
        match self {
            RefExit::Ok => "ok",
            RefExit::Length => "length",
            RefExit::Prefix => "prefix",
            RefExit::Range => "range",
            RefExit::NoRoot => "noroot",
            RefExit::OffCurve => "offcurve",
            RefExit::Parity => "parity",
            RefExit::Subgroup => "subgroup",
        }
    }
}

/// Strict reference decoder. `subgroup` = also demand r*(x,y) = O (G2).
pub fn ref_decode<F: RF>(bytes: &[u8], fmt: Fmt, subgroup: bool) -> Result<(F, F), RefExit> {
    if bytes.len() != fmt.len::<F>() {
        return Err(RefExit::Length);
    }
    let pt = match fmt {
        Fmt::Raw | Fmt::Unc => {
            let body = if fmt == Fmt::Unc {
                if bytes[0] != 4 {
                    return Err(RefExit::Prefix);
                }
                &bytes[1..]
            } else {
                bytes
            };
            let x = F::from_bytes(&body[..F::BYTES]).ok_or(RefExit::Range)?;
            let y = F::from_bytes(&body[F::BYTES..]).ok_or(RefExit::Range)?;
            if !on_curve(&x, &y) {
                return Err(RefExit::OffCurve);
            }
            (x, y)
        }
        Fmt::Cmp => {
            if bytes[0] != 2 && bytes[0] != 3 {
                return Err(RefExit::Prefix);
            }
            let x = F::from_bytes(&bytes[1..]).ok_or(RefExit::Range)?;
            let rhs = x.sqr().mul(&x).add(&F::curve_b());
            let y = rhs.sqrt().ok_or(RefExit::NoRoot)?;
            let want_odd = bytes[0] == 3;
            let y = if y.is_odd() == want_odd { y } else { y.neg() };
            if y.is_odd() != want_odd {
                // both roots have the same parity bit (real part zero): the byte string is
                // not the encoding of any point
                return Err(RefExit::Parity);
            }
            (x, y)
        }
    };
    if subgroup && pmul(&Some(pt.clone()), r()).is_some() {
        return Err(RefExit::Subgroup);
    }
    Ok(pt)
}

// ---------------------------------------------------------------------------------------
// twist points outside G2 (for the Byzantine sender)

/// a point of E'(Fq2) with the given x if one exists (the root with even parity)
pub fn twist_point_with_x(x: &Q2) -> Option<(Q2, Q2)> {
    let rhs = x.sqr().mul(x).add(&Q2::curve_b());
    let y = rhs.sqrt()?;
    let y = if y.is_odd() { y.neg() } else { y };
    Some((x.clone(), y))
}

pub fn g1_point_with_x(x: &Q) -> Option<(Q, Q)> {
    let rhs = x.sqr().mul(x).add(&Q::curve_b());
    let y = rhs.sqrt()?;
    Some((x.clone(), y))
}

/// deterministic search for a twist point starting from an Fq2 seed value
pub fn twist_point_from_seed(seed: &Q2) -> (Q2, Q2) {
    let mut x = seed.clone();
    loop {
        if let Some(p) = twist_point_with_x(&x) {
            return p;
        }
        x = x.add(&Q2::one());
    }
}

pub struct SmallOrder {
    /// generator of the order-13 subgroup of E'(Fq2)
    pub t13: (Q2, Q2),
    /// generator of the order-1621 subgroup
    pub t1621: (Q2, Q2),
}

/// Points of order 13 and 1621 on the twist, from the cofactor 2q - r (divisible by both).
pub fn small_order() -> &'static SmallOrder {
    static V: OnceLock<SmallOrder> = OnceLock::new();
    V.get_or_init(|| {
        let n = twist_order().clone();
        let find = |ell: u32| -> (Q2, Q2) {
            assert!((&n % ell).is_zero(), "twist order not divisible by {}", ell);
            let co = &n / ell;
            let mut s = 1u64;
            loop {
                let seed = Q2::new(BigUint::from(s), BigUint::from(7u32 + ell));
                let p = twist_point_from_seed(&seed);
                let t = pmul(&Some(p), &co);
                if let Some(t) = t {
                    // order divides ell (prime) and is not 1
                    assert!(pmul(&Some(t.clone()), &BigUint::from(ell)).is_none());
                    return t;
                }
                s += 1000;
            }
        };
        SmallOrder { t13: find(13), t1621: find(1621) }
    })
}

// ---------------------------------------------------------------------------------------
// self-test of the model (harness error, never a violation)

pub fn selftest() -> Result<(), String> {
    let qv = q();
    let rv = r();
    if (qv % 8u32) != BigUint::from(5u32) {
        return Err("q != 5 mod 8".into());
    }
    let g1 = g1_gen();
    let g2 = g2_gen();
    if !on_curve(&g1.0, &g1.1) {
        return Err("P1 not on curve".into());
    }
    if !on_curve(&g2.0, &g2.1) {
        return Err("P2 not on twist".into());
    }
    if pmul(&Some(g1.clone()), rv).is_some() {
        return Err("r*P1 != O".into());
    }
    if pmul(&Some(g2.clone()), rv).is_some() {
        return Err("r*P2 != O".into());
    }
    if pmul(&Some(g1.clone()), &(rv - 1u32)) != pneg(&Some(g1.clone())) {
        return Err("(r-1)*P1 != -P1".into());
    }
    // known-answer vectors quoted from the standard (also in the repository's tests)
    let k1 = hex_big("291FE3CAC8F58AD2DC462C8D4D578A94DAFD5624DDC28E328D2936688A86CF1A");
    let e1 = (
        Q(hex_big("A5702F05CF1315305E2D6EB64B0DEB923DB1A0BCF0CAFF90523AC8754AA69820")),
        Q(hex_big("78559A844411F9825C109F5EE3F52D720DD01785392A727BB1556952B2B013D3")),
    );
    if pmul(&Some(g1.clone()), &k1) != Some(e1) {
        return Err("k*P1 vector mismatch".into());
    }
    let k2 = hex_big("000130E78459D78545CB54C587E02CF480CE0B66340F319F348A1D5B1F2DC5F4");
    let e2 = (
        Q2 {
            c0: Q(hex_big("29DBA116152D1F786CE843ED24A3B573414D2177386A92DD8F14D65696EA5E32")),
            c1: Q(hex_big("9F64080B3084F733E48AFF4B41B565011CE0711C5E392CFB0AB1B6791B94C408")),
        },
        Q2 {
            c0: Q(hex_big("41E00A53DDA532DA1A7CE027B7A46F741006E85F5CDFF0730E75C05FB4E3216D")),
            c1: Q(hex_big("69850938ABEA0112B57329F447E3A0CBAD3E2FDB1A77F335E89E1408D0EF1C25")),
        },
    );
    if pmul(&Some(g2.clone()), &k2) != Some(e2) {
        return Err("k*P2 vector mismatch".into());
    }
    // square roots
    for v in [2u64, 3, 4, 5, 7, 1234567] {
        let a = Q::from_u64(v);
        match a.sqrt() {
            Some(s) => {
                if s.sqr() != a {
                    return Err("Fq sqrt wrong".into());
                }
            }
            None => {
                if is_square_mod(&a.0, qv) {
                    return Err("Fq sqrt missed".into());
                }
            }
        }
        let b = Q2 { c0: Q::from_u64(v), c1: Q::from_u64(v * 3 + 1) };
        let sq = b.sqr();
        match sq.sqrt() {
            Some(s) => {
                if s.sqr() != sq {
                    return Err("Fq2 sqrt wrong".into());
                }
            }
            None => return Err("Fq2 sqrt missed a square".into()),
        }
        let real = Q2 { c0: Q::from_u64(v), c1: Q::zero() };
        match real.sqrt() {
            Some(s) if s.sqr() == real => {}
            _ => return Err("Fq2 sqrt of a real element failed (every Fq element is a square in Fq2)".into()),
        }
    }
    // twist order and small-order points
    let cof = twist_cofactor();
    if !(cof % 13u32).is_zero() || !(cof % 1621u32).is_zero() {
        return Err("13*1621 does not divide 2q-r".into());
    }
    let tp = twist_point_from_seed(&Q2::new(BigUint::from(99u32), BigUint::from(3u32)));
    if pmul(&Some(tp.clone()), twist_order()).is_some() {
        return Err("twist order wrong: n'*T != O".into());
    }
    if pmul(&Some(tp), rv).is_none() {
        return Err("random twist point unexpectedly in G2".into());
    }
    let so = small_order();
    if pmul(&Some(so.t13.clone()), &BigUint::from(13u32)).is_some() {
        return Err("T13 order".into());
    }
    if pmul(&Some(so.t1621.clone()), &BigUint::from(1621u32)).is_some() {
        return Err("T1621 order".into());
    }
    // codec round trip in the model
    for fmt in FMTS {
        let e = ref_encode(&g2, fmt);
        match ref_decode::<Q2>(&e, fmt, true) {
            Ok(p) if p == g2 => {}
            other => return Err(format!("model codec G2 {:?}: {:?}", fmt, other.err())),
        }
        let e = ref_encode(&g1, fmt);
        match ref_decode::<Q>(&e, fmt, false) {
            Ok(p) if p == g1 => {}
            other => return Err(format!("model codec G1 {:?}: {:?}", fmt, other.err())),
        }
    }
    Ok(())
}
