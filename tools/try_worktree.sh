#!/bin/bash
# usage: tools/try_worktree.sh <worktree> <patch.diff> <ID> [<ID>...]
# Development aid: applies a seeded change inside a scratch worktree of /repo and runs the quick checks against
# THAT checkout (VERIF_REPO), leaving /repo untouched; reverts the worktree afterwards.
set -u
wt="$1"; patch="$2"; shift 2
cd "$wt" || exit 2
git checkout -q -- . ; git apply "$patch" || { echo "patch does not apply"; exit 2; }
cd "${VERIF_DIR:-/verif}"
for id in "$@"; do
  out=$(VERIF_REPO="$wt" VERIF_EVIDENCE_DIR=/tmp/ev-trial-wt ./check "$id" --tier quick 2>&1); code=$?
  v=$(echo "$out" | grep -m1 '^VIOLATION' ); s=$(echo "$out" | grep -A1 -m1 '^VIOLATION' | tail -1)
  echo "$id exit=$code $v"
  [ -n "$v" ] && echo "    $s"
  [ $code -eq 2 ] && echo "$out" | tail -5
done
git -C "$wt" checkout -q -- .
exit 0
