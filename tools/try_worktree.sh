#!/bin/bash
# usage: tools/try_worktree.sh <worktree> <patch.diff> <ID> [<ID>...]
# Development aid: applies a seeded change inside a scratch worktree of /repo and runs the quick checks against
# THAT checkout (VERIF_REPO), leaving /repo untouched; reverts the worktree afterwards.
set -u
wt="$1"; patch="$2"; shift 2
cd "$wt" || exit 2
git checkout -q -- . ; git apply "$patch" || { echo "patch does not apply"; exit 2; }
cd "${VERIF_DIR:-/verif}"
for id in "$@"; do
  rm -f /tmp/ev-trial-wt/$id.json
  out=$(VERIF_REPO="$wt" VERIF_EVIDENCE_DIR=/tmp/ev-trial-wt ./check "$id" --tier quick 2>&1); code=$?
  v=$(echo "$out" | grep -m1 '^VIOLATION' ); s=$(echo "$out" | grep -A1 -m1 '^VIOLATION' | tail -1)
  vr=$(python3 -c "import json;print(json.load(open('/tmp/ev-trial-wt/$id.json'))['coverage'].get('counters',{}).get('violating_runs',0))" 2>/dev/null)
  echo "$id exit=$code violating_runs=${vr:-?} $v"
  [ -n "$v" ] && echo "    $s"
  [ $code -eq 2 ] && echo "$out" | tail -5
done
git -C "$wt" checkout -q -- .
exit 0
