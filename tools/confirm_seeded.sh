#!/bin/bash
# usage: tools/confirm_seeded.sh <worktree> <k> <seeded-id> <property> [extra cargo test flags for the demo, e.g. --release]
# Confirms a sub-agent's change in its scratch worktree: (1) patch applies, (2) the unedited test-suite
# passes with it, (3) the demonstration fails with it, (4) the demonstration passes without it.
# On success copies patch.diff, demo.rs, notes.md into /verif/seeded/<seeded-id>/ and writes meta.json.
set -u
wt="$1"; k="$2"; id="$3"; prop="$4"; shift 4; flags="$*"
d="$wt/deliver/$k"
cd "$wt" || exit 2
git checkout -q -- . ; rm -f tests/demo_seeded.rs
git apply --check "$d/patch.diff" || { echo "$id: patch does not apply"; exit 1; }
git apply "$d/patch.diff"
suite=$(cargo test --workspace --no-fail-fast --offline 2>&1 | grep -E '^test result')
npass=$(echo "$suite" | grep -c 'test result: ok')
total=$(echo "$suite" | sed -E 's/.*ok\. ([0-9]+) passed.*/\1/' | paste -sd+ | bc)
cp "$d/demo.rs" tests/demo_seeded.rs
with=$(cargo test --offline $flags --test demo_seeded 2>&1 | grep -E '^test result' | tail -1)
git checkout -q -- .
without=$(cargo test --offline $flags --test demo_seeded 2>&1 | grep -E '^test result' | tail -1)
rm -f tests/demo_seeded.rs
echo "$id: suite_ok_groups=$npass total_passed=$total"
echo "$id: demo WITH patch   : $with"
echo "$id: demo WITHOUT patch: $without"
if [ "$npass" = "3" ] && echo "$with" | grep -q FAILED && echo "$without" | grep -q 'test result: ok'; then
  mkdir -p /verif/seeded/$id
  cp "$d/patch.diff" "$d/demo.rs" /verif/seeded/$id/
  cp "$d/notes.md" /verif/seeded/$id/notes.md 2>/dev/null
  python3 - "$id" "$prop" "$flags" "$with" "$without" "$total" <<'PY'
import json,sys
id,prop,flags,w,wo,total=sys.argv[1:7]
json.dump({"id":id,"breaks_property":prop,"origin":"independent sub-agent given only the property record and a scratch worktree",
 "confirmed":{"suite_with_patch":"cargo test --workspace --no-fail-fast --offline: 3/3 result groups ok, %s tests passed"%total,
              "demo_command":"cargo test --offline %s --test demo_seeded"%flags,
              "demo_with_patch":w,"demo_without_patch":wo},
 "needs_to_manifest":"see notes.md","detected_by":"(filled in after running the checks)"},open('/verif/seeded/%s/meta.json'%id,'w'),indent=1)
PY
  echo "$id: CONFIRMED -> /verif/seeded/$id"
else
  echo "$id: NOT CONFIRMED"
fi
