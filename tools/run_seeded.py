#!/usr/bin/env python3
"""usage: tools/run_seeded.py [--worktree DIR] <seeded-id> [<ID> ...]
Runs quick checks against one seeded change and records the outcome in /verif/seeded/<id>/meta.json (detected_by).
Without --worktree: the documented way - git -C /repo apply patch.diff, ./check <ID>, git -C /repo checkout -- .
With --worktree DIR: applies the patch inside that scratch worktree of /repo and runs the checks with VERIF_REPO=DIR
(development aid; /repo stays untouched, so several evaluations can run while other work goes on).
If no check ids are given: the property the change breaks plus every check recorded as having caught it before."""
import json, subprocess, sys, os
args = sys.argv[1:]
wt = None
if args and args[0] == "--worktree":
    wt = args[1]; args = args[2:]
sid = args[0]; checks = args[1:]
d = "/verif/seeded/" + sid
meta = json.load(open(d + "/meta.json"))
old = meta.get("detected_by") if isinstance(meta.get("detected_by"), dict) else {}
if not checks:
    checks = sorted(set([meta["breaks_property"]] + [c for c, r in old.items() if r.get("violation")]))
if wt:
    cmd = ["/verif/tools/try_worktree.sh", wt, d + "/patch.diff"] + checks
else:
    cmd = ["/verif/tools/try_patch.sh", d + "/patch.diff"] + checks
out = subprocess.run(cmd, capture_output=True, text=True).stdout
print("== %s" % sid); print(out)
det = dict(old)
cur = None
for line in out.splitlines():
    parts = line.split()
    if len(parts) >= 2 and parts[1].startswith("exit="):
        cur = parts[0]
        det[cur] = {"exit": int(parts[1][5:]), "violation": ("VIOLATION" in line)}
        for tok in parts:
            if tok.startswith("violating_runs="):
                det[cur]["violating_runs"] = tok.split("=")[1]
        det[cur]["seed"] = os.environ.get("VERIF_SEED", "default")
    elif cur and (line.strip().startswith("invariant=") or line.strip().startswith("signature=")):
        det[cur]["first"] = line.strip()
    elif cur and line.startswith("HARNESS-ERROR"):
        det[cur]["first"] = line.strip()[:200]
meta["detected_by"] = det
head = subprocess.run(["git", "-C", "/verif", "rev-parse", "--short", "HEAD"], capture_output=True, text=True).stdout.strip()
meta["what_ran"] = ("patch.diff applied to a checkout of /repo (%s); ./check <ID> --tier quick for each listed ID, default VERIF_SEED; "
                    "reverted afterwards; last refreshed with /verif at %s" % ("scratch worktree via VERIF_REPO" if wt else "git -C /repo apply", head))
json.dump(meta, open(d + "/meta.json", "w"), indent=1)
