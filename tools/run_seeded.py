#!/usr/bin/env python3
"""usage: tools/run_seeded.py <seeded-id> <ID> [<ID>...]   - apply /verif/seeded/<id>/patch.diff to /repo, run quick checks,
revert, and record which checks reported a violation in /verif/seeded/<id>/meta.json (detected_by)."""
import json, subprocess, sys, os
sid = sys.argv[1]; checks = sys.argv[2:]
d = "/verif/seeded/" + sid
out = subprocess.run(["/verif/tools/try_patch.sh", d + "/patch.diff"] + checks, capture_output=True, text=True).stdout
print(out)
meta = json.load(open(d + "/meta.json"))
det = meta.get("detected_by") if isinstance(meta.get("detected_by"), dict) else {}
cur = None
for line in out.splitlines():
    parts = line.split()
    if len(parts) >= 2 and parts[1].startswith("exit="):
        cur = parts[0]
        det[cur] = {"exit": int(parts[1][5:]), "violation": ("VIOLATION" in line)}
    elif cur and line.strip().startswith("invariant=") or (cur and line.strip().startswith("signature=")):
        det[cur]["first"] = line.strip()
meta["detected_by"] = det
meta["what_ran"] = "git -C /repo apply patch.diff; ./check <ID> --tier quick for each listed ID (default VERIF_SEED); git -C /repo checkout -- ."
json.dump(meta, open(d + "/meta.json", "w"), indent=1)
