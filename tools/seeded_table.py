#!/usr/bin/env python3
"""Regenerates the seeded-change table in DESIGN.md (between the SEEDED_TABLE markers) from /verif/seeded/*/meta.json."""
import json, glob, os, re
rows = []
for d in sorted(glob.glob('/verif/seeded/*')):
    mp = os.path.join(d, 'meta.json')
    if not os.path.exists(mp):
        continue
    m = json.load(open(mp))
    det = m.get('detected_by') if isinstance(m.get('detected_by'), dict) else {}
    caught = []
    quiet = []
    for cid, r in sorted(det.items()):
        if r.get('violation'):
            f = r.get('first', '')
            inv = re.search(r'(I\d\d\.\d|I18\.\d|I08\.4)', f)
            caught.append(cid + (' ' + inv.group(1) if inv else ''))
        else:
            quiet.append(cid)
    summ = m.get('summary', '')
    base = m.get('baseline_before_strengthening', '')
    rows.append('| %s | %s | %s | %s | %s |' % (m['id'], m['breaks_property'], summ, ', '.join(caught) or '**none**', base))
table = ['| id | breaks | change and what it needs to manifest | caught by (quick, default seed) | before strengthening |',
         '|----|--------|--------------------------------------|---------------------------------|----------------------|'] + rows
p = '/verif/DESIGN.md'
s = open(p).read()
block = '<!-- SEEDED_TABLE_BEGIN -->\n' + '\n'.join(table) + '\n<!-- SEEDED_TABLE_END -->'
if 'SEEDED_TABLE_PLACEHOLDER' in s:
    s = s.replace('SEEDED_TABLE_PLACEHOLDER', block)
else:
    s = re.sub(r'<!-- SEEDED_TABLE_BEGIN -->.*?<!-- SEEDED_TABLE_END -->', lambda m_: block, s, flags=re.S)
open(p, 'w').write(s)
print('\n'.join(table))
