#!/bin/bash
# usage: tools/try_patch.sh <patch.diff> <ID> [<ID> ...]
# applies a seeded change to /repo, runs the given quick checks, reverts the change.
# prints one line per check: <ID> exit=<code> [first VIOLATION line]
set -u
patch="$1"; shift
cd /repo || exit 2
if ! git diff --quiet; then echo "refusing: /repo has uncommitted changes"; exit 2; fi
git apply "$patch" || { echo "patch does not apply"; exit 2; }
trap 'git -C /repo checkout -- . ; git -C /repo clean -fdq src tests 2>/dev/null' EXIT
cd "${VERIF_DIR:-/verif}"
exitcode=0
for id in "$@"; do
  out=$(VERIF_EVIDENCE_DIR=/tmp/ev-trial ./check "$id" --tier quick 2>&1); code=$?
  v=$(echo "$out" | grep -m1 '^VIOLATION' ); s=$(echo "$out" | grep -A1 -m1 '^VIOLATION' | tail -1)
  echo "$id exit=$code $v"
  [ -n "$v" ] && echo "    $s"
  [ $code -eq 2 ] && echo "$out" | tail -5
done
exit 0
